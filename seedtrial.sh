#!/bin/bash
# usage: seedtrial.sh <patch.diff> <property> [<property>...]
# Runs the quick checks of the named properties against a scratch worktree of /repo with the
# patch applied (VERIF_REPO), keeping /repo and the committed evidence untouched.
patch=$1; shift
T=$(mktemp -d /tmp/trial.XXXXXX); rmdir $T
git -C /repo worktree add -q --detach $T HEAD || exit 2
git -C $T apply "$patch" || { echo "PATCH DOES NOT APPLY"; git -C /repo worktree remove --force $T; exit 2; }
cd /verif
for p in "$@"; do
  VERIF_REPO=$T VERIF_TRIAL_EVIDENCE=/tmp/trial-evidence timeout ${TRIAL_TIMEOUT:-1500} ./check $p ${TRIAL_TIER:-quick} 2>&1 | grep -E "VIOLATION|violated|INCONCLUSIVE|MISMATCH|BROKEN|^C[0-9]+ " | cut -c1-240 | head -12
done
git -C /repo worktree remove --force $T
