#!/usr/bin/env python3
"""Regenerates MANIFEST.json from checks.json + claims.json (per-property level text)."""
import json, os
V = os.path.dirname(os.path.abspath(__file__))
checks = json.load(open(f"{V}/checks.json"))
claims = json.load(open(f"{V}/claims.json"))
props = [json.loads(l) for l in open(f"{V}/properties.jsonl")]
man = {
 "version": 1,
 "setup_cmd": "cd /verif/engine && GOFLAGS=-mod=mod GOPROXY=off GOSUMDB=off GOTOOLCHAIN=local go build -o ../bin/gosym .",
 "hooks": {
  "guard": "verif",
  "enable": "no source hooks are committed to /repo: harness files (//go:build verif) and generated hook/clock rewrites reach the build only through packages.Config.Overlay (symbolic run) and `go test -tags verif -overlay` (native replay), regenerated from /repo's working tree on every run",
  "baseline_off_cmd": "cd /repo && go test -mod=mod -json -vet=off -count=1 -timeout 25m ./...",
  "source_commits": [],
  "add_only": True
 },
 "engines": [{
  "name": "gosym", "path": "/verif/engine",
  "serves_properties": sorted(checks["properties"].keys()),
  "kind_free_text": "path-forking symbolic interpreter over go/ssa (x/tools v0.29.0) of the real furiko code; scalars are SMT terms (LIA ints with no-wrap obligations, strings), object shape concrete per path; z3 4.8.12 decides every branch feasibility and assertion; counterexamples and reachability witnesses are replayed natively with go test -overlay"
 }],
 "checks": [],
 "not_applicable": [],
 "notes": claims.get("_notes", "")
}
for p in props:
    pid = p["id"]
    if pid in checks["properties"] and pid in claims and not claims[pid].get("not_applicable"):
        c = claims[pid]
        man["checks"].append({
         "property_id": pid,
         "quick_cmd": f"./check {pid} quick",
         "thorough_cmd": f"./check {pid} thorough",
         "evidence_file": f"/verif/evidence/{pid}.json",
         "replay_cmd_template": "./check replay {path}",
         "engine": "gosym",
         "level_claimed": {"category": "model_checking", "text": c["text"], "design_ref": c.get("design_ref", "DESIGN.md §7 " + pid + " (plan), §11.3 and §11.6 (as built)")},
         "level_note": c["note"],
         "technique": c.get("technique", "symbolic execution of the real Go code via go/ssa into SMT (z3), bounded; one inductive step from an arbitrary valid state; native replay of counterexamples")
        })
    else:
        reason = claims.get(pid, {}).get("not_applicable") or "check not built yet in this round (engine and harness pending); no claim is made"
        man["not_applicable"].append({"property_id": pid, "reason": reason})
json.dump(man, open(f"{V}/MANIFEST.json", "w"), indent=1)
print("checks:", [c["property_id"] for c in man["checks"]], "n/a:", [c["property_id"] for c in man["not_applicable"]])
