#!/usr/bin/env python3
"""seedstore.py <seed id> <property> <src out dir> <demo pkg dir> <run pattern> <caught_by> <needs...>"""
import sys, json, os, shutil
sid, prop, src, pkg, pat, caught = sys.argv[1:7]
needs = " ".join(sys.argv[7:])
d = f"/verif/seeded/{sid}"
os.makedirs(d, exist_ok=True)
shutil.copy(f"{src}/patch.diff", f"{d}/patch.diff")
shutil.copy(f"{src}/zz_seed_demo_test.go", f"{d}/zz_seed_demo_test.go")
if os.path.exists(f"{src}/notes.md"):
    shutil.copy(f"{src}/notes.md", f"{d}/notes.md")
meta = {
 "id": sid, "breaks_property": prop,
 "needs_to_manifest": needs,
 "demonstration": {"file": "zz_seed_demo_test.go", "package_dir": pkg,
    "run": f"cp zz_seed_demo_test.go <worktree>/{pkg}/ && cd <worktree> && go test -vet=off -count=1 -run '{pat}' ./{pkg}/"},
 "confirmed_by_me": ["patch applies with git apply and the tree builds (go build ./pkg/... ./apis/... ./cmd/...)",
    "demonstration FAILS with the patch and PASSES without it (scratch worktree, /verif/seedcheck.sh)",
    "existing suite go test -vet=off -count=1 ./pkg/... ./apis/... passes with the patch (known-flaky pkg/cli/cmd watch tests and load-sensitive validation informer test re-run alone where they tripped)"],
 "caught_by": caught,
 "origin": "independent sub-agent given only the property text and its own scratch worktree",
}
json.dump(meta, open(f"{d}/meta.json", "w"), indent=1)
print("stored", d)
