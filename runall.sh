#!/bin/bash
# runs every registered quick (or thorough) check on the current tree and prints one line each
cd /verif
tier=${1:-quick}
for id in $(python3 -c "import json; print(' '.join(c['property_id'] for c in json.load(open('MANIFEST.json'))['checks']))"); do
  out=$(timeout ${RUNALL_TIMEOUT:-2400} ./check $id $tier 2>&1); rc=$?
  echo "$id rc=$rc $(echo "$out" | tail -1 | cut -c1-160)"
  echo "$out" | grep -E "^VIOLATION|^ENGINE-MISMATCH|^INCONCLUSIVE|^BROKEN|^KNOWN-FINDING" | cut -c1-200 | sed 's/^/    /'
done
