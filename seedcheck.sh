#!/bin/bash
# usage: seedcheck.sh <id> <pkgdir relative to repo> <demo test file> [-run pattern]
# Confirms in the scratch worktree /tmp/seed/<id>: patch applies and compiles, demo fails with it,
# the existing suite (pkg + apis) passes with it, demo passes without it.
id=$1; pkg=$2; demo=$3; pat=${4:-TestSeed}
export GOFLAGS=-mod=mod GOPROXY=off GOSUMDB=off GOTOOLCHAIN=local
W=/tmp/seed/$id; O=/tmp/seed/$id-out
cd $W || exit 2
git checkout -q -- . ; rm -f $pkg/zz_seed_demo_test.go
git apply $O/patch.diff || { echo "PATCH DOES NOT APPLY"; exit 2; }
go build ./pkg/... ./apis/... ./cmd/... || { echo "DOES NOT COMPILE"; exit 2; }
cp $O/$demo $pkg/zz_seed_demo_test.go
echo "--- demo WITH change (expect FAIL)"; timeout 900 go test -vet=off -count=1 -run "$pat" ./$pkg/ 2>&1 | tail -4
rm -f $pkg/zz_seed_demo_test.go
echo "--- suite WITH change (expect ok)"; timeout 2400 go test -vet=off -count=1 ./pkg/... ./apis/... 2>&1 | grep -v "^ok\|no test files" | tail -8; echo "suite exit=${PIPESTATUS[0]}"
git checkout -q -- .
cp $O/$demo $pkg/zz_seed_demo_test.go
echo "--- demo WITHOUT change (expect ok)"; timeout 900 go test -vet=off -count=1 -run "$pat" ./$pkg/ 2>&1 | tail -3
rm -f $pkg/zz_seed_demo_test.go
git status --short | head
