//go:build verif

package heap

var verifHarnesses = map[string]func(){
	"VerifH_C01_L1_heapStep": VerifH_C01_L1_heapStep,
}
