//go:build verif

package heap

import (
	vz "github.com/furiko-io/furiko/pkg/zzverif"
)

var verifNames = []string{"a", "b", "c", "d", "e", "f", "g", "h"}

// verifValid is the representation invariant of Heap.
func verifValid(h *Heap) bool {
	pq := h.pq
	ok := len(pq.names) == len(pq.queue)
	for i, it := range pq.queue {
		if it == nil {
			return false
		}
		idx, found := pq.names[it.name]
		ok = vz.And(ok, found && idx == i && it.index == i)
		if i > 0 {
			ok = vz.And(ok, pq.queue[(i-1)/2].priority <= it.priority)
		}
	}
	return ok
}

// verifArbitraryHeap builds an arbitrary valid heap of n items directly (not
// through the API), so that one operation from it is an inductive step.
func verifArbitraryHeap(n int) (*Heap, []int) {
	pq := &priorityQueue{queue: make([]*Item, n), names: make(map[string]int, n)}
	prios := make([]int, n)
	for i := 0; i < n; i++ {
		p := int(vz.IntRange("prio", 0, 1<<36))
		prios[i] = p
		pq.queue[i] = &Item{name: verifNames[i], priority: p, index: i}
		pq.names[verifNames[i]] = i
		if i > 0 {
			vz.Assume(prios[(i-1)/2] <= p)
		}
	}
	return &Heap{pq: pq}, prios
}

// VerifH_C01_L1_heapStep: from an arbitrary valid heap, one arbitrary
// operation keeps the heap valid, has exactly its multiset effect, and Peek/Pop
// return a minimum.
func VerifH_C01_L1_heapStep() {
	max := 4
	if vz.Thorough() {
		max = 7
	}
	n := vz.Choice("n", max+1)
	h, prios := verifArbitraryHeap(n)
	vz.Assert(verifValid(h), "C01/L1/pre-valid")
	op := vz.Choice("op", 6)
	removed := -1
	switch op {
	case 0: // Push a new name
		p := int(vz.IntRange("newprio", 0, 1<<36))
		h.Push(verifNames[n], p)
		got, ok := h.Search(verifNames[n])
		vz.Assert(ok && got == p, "C01/L1/push-present")
		vz.Assert(h.Len() == n+1, "C01/L1/push-len")
	case 1: // Pop
		if n == 0 {
			return
		}
		it := h.Pop()
		for i := 0; i < n; i++ {
			vz.Assert(it.priority <= prios[i], "C01/L1/pop-min")
			if it.name == verifNames[i] {
				removed = i
				vz.Assert(it.priority == prios[i], "C01/L1/pop-own-priority")
			}
		}
		vz.Assert(removed >= 0, "C01/L1/pop-was-member")
		vz.Assert(h.Len() == n-1, "C01/L1/pop-len")
	case 2: // Update
		if n == 0 {
			vz.Assert(!h.Update("a", 5), "C01/L1/update-missing")
			return
		}
		k := vz.Choice("k", n)
		p := int(vz.IntRange("newprio", 0, 1<<36))
		vz.Assert(h.Update(verifNames[k], p), "C01/L1/update-found")
		prios[k] = p
		vz.Assert(h.Len() == n, "C01/L1/update-len")
	case 3: // Delete
		if n == 0 {
			vz.Assert(!h.Delete("a"), "C01/L1/delete-missing")
			return
		}
		k := vz.Choice("k", n)
		vz.Assert(h.Delete(verifNames[k]), "C01/L1/delete-found")
		removed = k
		_, ok := h.Search(verifNames[k])
		vz.Assert(!ok, "C01/L1/delete-gone")
		vz.Assert(h.Len() == n-1, "C01/L1/delete-len")
	case 4: // Peek
		it, ok := h.Peek()
		vz.Assert(ok == (n > 0), "C01/L1/peek-ok")
		if ok {
			for i := 0; i < n; i++ {
				vz.Assert(it.priority <= prios[i], "C01/L1/peek-min")
			}
		}
	case 5: // Search / Delete of an absent name
		_, ok := h.Search(verifNames[n])
		vz.Assert(!ok, "C01/L1/search-absent")
		vz.Assert(!h.Delete(verifNames[n]), "C01/L1/delete-absent")
	}
	vz.Assert(verifValid(h), "C01/L1/post-valid")
	for i := 0; i < n; i++ {
		if i == removed {
			continue
		}
		got, ok := h.Search(verifNames[i])
		vz.Assert(ok && got == prios[i], "C01/L1/others-unchanged")
	}
	vz.Cover("heap-step-done")
}
