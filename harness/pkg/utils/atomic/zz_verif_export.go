//go:build verif

package atomic

// VerifSet puts the counter of key into an arbitrary state (pre-state of an
// inductive step).
func (a *Counter) VerifSet(key string, v int64) {
	node := a.getNode(key, true)
	node.count = v
}
