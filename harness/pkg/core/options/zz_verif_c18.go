//go:build verif

package options

import (
	"strings"

	"k8s.io/apimachinery/pkg/util/validation/field"

	execution "github.com/furiko-io/furiko/apis/execution/v1alpha1"
	vz "github.com/furiko-io/furiko/pkg/zzverif"
)

var verifOptStrings = []string{"", " ", "a", " a ", "b", "${option.x}"}

func verifPickStr(name string) string { return verifOptStrings[vz.Choice(name, len(verifOptStrings))] }

func verifContains(xs []string, s string) bool {
	for _, x := range xs {
		if x == s {
			return true
		}
	}
	return false
}

// VerifH_C18_L1_evaluate: for an option spec accepted by validation and any
// submitted value, evaluation either rejects or yields exactly one value that
// respects the option's constraints; with no value given it yields exactly what
// the JobConfig's defaults produce.
func VerifH_C18_L1_evaluate() {
	// ZeroForNonConfig clears the non-pointer fields by reflection; the stand-in
	// names the same fields explicitly
	VerifHook_ZeroForNonConfig = func(option execution.Option) execution.Option {
		n := option.DeepCopy()
		n.Type, n.Name, n.Label, n.Required = "", "", "", false
		return *n
	}
	opt := execution.Option{Name: "o"}
	opt.Required = vz.Bool("required")
	kind := vz.Choice("type", 4)
	switch kind {
	case 0:
		opt.Type = execution.OptionTypeBool
		opt.Bool = &execution.BoolOptionConfig{Default: vz.Bool("bool.default")}
		opt.Bool.Format = []execution.BoolOptionFormat{execution.BoolOptionFormatTrueFalse, execution.BoolOptionFormatOneZero, execution.BoolOptionFormatYesNo, execution.BoolOptionFormatCustom}[vz.Choice("bool.format", 4)]
		if opt.Bool.Format == execution.BoolOptionFormatCustom {
			opt.Bool.TrueVal, opt.Bool.FalseVal = "T", ""
		}
	case 1:
		opt.Type = execution.OptionTypeString
		if vz.Bool("string.hasConfig") {
			opt.String = &execution.StringOptionConfig{Default: verifPickStr("string.default"), TrimSpaces: vz.Bool("string.trim")}
		}
	case 2:
		opt.Type = execution.OptionTypeSelect
		opt.Select = &execution.SelectOptionConfig{Values: []string{"a", "b"}, Default: []string{"", "a", "c"}[vz.Choice("select.default", 3)], AllowCustom: vz.Bool("select.allowCustom")}
	case 3:
		opt.Type = execution.OptionTypeMulti
		opt.Multi = &execution.MultiOptionConfig{Values: []string{"a", "b"}, Delimiter: ",", AllowCustom: vz.Bool("multi.allowCustom")}
		switch vz.Choice("multi.default", 3) {
		case 1:
			opt.Multi.Default = []string{"a"}
		case 2:
			opt.Multi.Default = []string{"a", "b"}
		}
	}
	spec := &execution.OptionSpec{Options: []execution.Option{opt}}
	vz.Assume(len(ValidateOptionSpec(spec, field.NewPath("spec", "option"))) == 0)
	vz.Cover("spec-accepted")

	values := map[string]interface{}{}
	given := vz.Choice("value", 7)
	var gs string
	var gl []string
	switch given {
	case 0: // absent
	case 1:
		values["o"] = nil
	case 2:
		values["o"] = vz.Bool("value.bool")
	case 3:
		gs = verifPickStr("value.string")
		values["o"] = gs
	case 4:
		values["o"] = int64(7)
	case 5:
		gl = []string{verifPickStr("value.item0")}
		if vz.Bool("value.two") {
			gl = append(gl, verifPickStr("value.item1"))
		}
		iv := make([]interface{}, len(gl))
		for i, s := range gl {
			iv[i] = s
		}
		values["o"] = iv
	case 6:
		gl = []string{"a", "b"}
		values["o"] = gl
	}
	out, errs := EvaluateOptions(values, spec, field.NewPath("spec", "optionValues"))
	v, has := out["option.o"]
	vz.Assert((len(errs) > 0) != has, "C18/L1/rejected-xor-exactly-one-value")
	vz.Assert(len(out) <= 1, "C18/L1/one-value-per-option")
	if given <= 1 {
		// no value given: the declared default, i.e. what the JobConfig's defaults produce
		defs, err := MakeDefaultOptions(spec)
		vz.Assert(err == nil, "C18/L1/defaults-computable-for-accepted-spec")
		if has {
			vz.Assert(v == defs["option.o"], "C18/L1/absent-value-uses-declared-default")
			vz.Cover("default-used")
		}
	}
	if !has {
		vz.Cover("rejected")
		return
	}
	vz.Cover("evaluated")
	if opt.Required && kind != 0 {
		vz.Assert(len(v) > 0, "C18/L1/required-means-non-empty")
	}
	switch kind {
	case 0:
		b := opt.Bool.Default
		if given == 2 {
			b = values["o"].(bool)
		}
		want, _ := opt.Bool.FormatValue(b)
		vz.Assert(given <= 2 && v == want, "C18/L1/bool-formatting")
	case 1:
		vz.Assert(given == 0 || given == 1 || given == 3, "C18/L1/string-type-checked")
		if opt.String != nil && opt.String.TrimSpaces {
			vz.Assert(v == strings.TrimSpace(v), "C18/L1/trimmed")
		}
		if given == 3 {
			src := gs
			if opt.String != nil && opt.String.TrimSpaces {
				src = strings.TrimSpace(src)
			}
			vz.Assert(v == src, "C18/L1/string-value-kept")
		}
	case 2:
		vz.Assert(given == 0 || given == 1 || given == 3, "C18/L1/select-type-checked")
		if !opt.Select.AllowCustom && len(v) > 0 {
			vz.Assert(verifContains(opt.Select.Values, v), "C18/L1/select-only-allowed-values")
		}
	case 3:
		vz.Assert(given == 0 || given == 1 || given == 5 || given == 6, "C18/L1/multi-type-checked")
		if len(v) > 0 {
			for _, item := range strings.Split(v, ",") {
				vz.Assert(len(item) > 0, "C18/L1/multi-no-empty-items")
				if !opt.Multi.AllowCustom {
					vz.Assert(verifContains(opt.Multi.Values, item), "C18/L1/multi-only-allowed-values")
				}
			}
		}
	}
}
