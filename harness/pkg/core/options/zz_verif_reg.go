//go:build verif

package options

var verifHarnesses = map[string]func(){
	"VerifH_C18_L1_evaluate": VerifH_C18_L1_evaluate,
}
