//go:build verif

package tzutils

var verifHarnesses = map[string]func(){
	"VerifH_C01_tzOffset": VerifH_C01_tzOffset,
}
