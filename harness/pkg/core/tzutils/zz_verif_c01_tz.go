//go:build verif

package tzutils

import (
	"strconv"
	"time"

	vz "github.com/furiko-io/furiko/pkg/zzverif"
)

// VerifH_C01_tzOffset: the other harnesses of C01/C03/C04 replace ParseTimezone
// by "one Location object per string" and show that every cron evaluation happens
// in the Location ParseTimezone returned. This lemma closes the gap for the
// UTC/GMT offset notation, the part of "effective timezone" that is furiko's own
// arithmetic: for every spelling of an offset (sign, hours, minutes, with and
// without leading zero / colon, UTC or GMT prefix) the real ParseTimezone returns
// a zone whose offset is sign*(hours*3600+minutes*60) seconds and whose
// normalised name is UTC±hh:mm - so an instant's wall clock in that zone, which
// is what the cron expression is matched against, is the one the user asked for.
// (tzdata names are resolved by time.LoadLocation and are outside.)
func VerifH_C01_tzOffset() {
	prefix := []string{"UTC", "GMT"}[vz.Choice("prefix", 2)]
	si := vz.Choice("sign", 2)
	neg := si == 1
	hours := []int{0, 1, 3, 9, 10, 12, 14, 23}
	h := hours[vz.Choice("hours", len(hours))]
	mins := []int{0, 30, 45, 59}
	m := mins[vz.Choice("minutes", len(mins))]
	sign := []string{"+", "-"}[si]
	d := strconv.Itoa
	d2 := func(n int) string {
		if n < 10 {
			return "0" + strconv.Itoa(n)
		}
		return strconv.Itoa(n)
	}
	spelling := vz.Choice("spelling", 5)
	var s string
	switch spelling {
	case 0: // +7 / +07 as written without padding
		vz.Assume(m == 0)
		s = prefix + sign + d(h)
	case 1: // +07
		vz.Assume(m == 0)
		s = prefix + sign + d2(h)
	case 2: // +7:30
		vz.Assume(h < 10)
		s = prefix + sign + d(h) + ":" + d2(m)
	case 3: // +07:30
		s = prefix + sign + d2(h) + ":" + d2(m)
	case 4: // +0730
		s = prefix + sign + d2(h) + d2(m)
	}
	// "GMT+0" and "GMT-0" are tzdata names of their own (resolved by time.LoadLocation): outside
	vz.Assume(!(prefix == "GMT" && h == 0 && spelling == 0))
	loc, err := ParseTimezone(s)
	vz.Assert(err == nil && loc != nil, "C01/tz/offset-notation-accepted")
	if err != nil || loc == nil {
		return
	}
	want := h*3600 + m*60
	if neg {
		want = -want
	}
	// the wall clock of an arbitrary instant in that zone
	_, off := time.Unix(0, 0).In(loc).Zone()
	vz.Assert(off == want, "C01/tz/offset-is-the-one-written")
	wantName := "UTC" + sign + d2(h) + ":" + d2(m)
	if want == 0 {
		// -00:00 is written +00:00 by the time package
		wantName = "UTC+00:00"
	}
	vz.Assert(loc.String() == wantName, "C01/tz/normalised-name")
	if neg && m != 0 {
		vz.Cover("negative-with-minutes")
	}
	if spelling == 2 {
		vz.Cover("no-leading-zero-with-colon")
	}
}
