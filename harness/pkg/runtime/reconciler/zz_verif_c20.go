//go:build verif

package reconciler

import (
	"context"
	"time"

	vz "github.com/furiko-io/furiko/pkg/zzverif"
	"github.com/furiko-io/furiko/pkg/zzverif/fakes"
)

type verifHandler struct {
	max   int
	err   error
	calls int
	ns    string
	name  string
	nreq  int
}

func (h *verifHandler) Name() string     { return "verif" }
func (h *verifHandler) Concurrency() int { return 1 }
func (h *verifHandler) MaxRequeues() int { return h.max }
func (h *verifHandler) SyncOne(ctx context.Context, namespace, name string, numRequeues int) error {
	h.calls++
	h.ns, h.name, h.nreq = namespace, name, numRequeues
	return h.err
}

// VerifH_C20_L1_retry: a failed sync is handed back to the rate-limited queue
// (always, for controllers with MaxRequeues <= 0; below the limit otherwise), a
// successful one resets the back-off, and the key is always released.
func VerifH_C20_L1_retry() {
	now := vz.Instant("now")
	vz.NowFn = func() time.Time { return now }
	q := &fakes.Queue{Items: []interface{}{vz.Pick("key", "ns/job", "ns/a.b.1600000000")}}
	q.Requeues = int(vz.IntRange("numRequeues", 0, 6))
	h := &verifHandler{max: int(vz.IntRange("maxRequeues", -1, 5))}
	fails := vz.Bool("syncFails")
	if fails {
		h.err = fakes.ErrorOfKind([]int{0, 1, 2, 6, 7}[vz.Choice("errKind", 5)], "x")
	}
	c := NewController(h, q)
	cont := c.work(context.Background())
	vz.Assert(cont, "C20/L1/worker-continues")
	vz.Assert(h.calls == 1 && h.ns == "ns", "C20/L1/key-dispatched")
	vz.Assert(q.Count("done") == 1, "C20/L1/key-always-released")
	if fails {
		mustRetry := h.max <= 0 || q.Requeues < h.max
		vz.Assert((q.Count("addRateLimited") == 1) == mustRetry, "C20/L1/failed-sync-is-requeued")
		vz.Assert(q.Count("forget") == 0, "C20/L1/no-forget-on-failure")
		if mustRetry {
			vz.Cover("requeued")
		} else {
			vz.Cover("retries-exhausted")
		}
	} else {
		vz.Assert(q.Count("forget") == 1 && q.Count("addRateLimited") == 0, "C20/L1/success-resets-backoff")
		vz.Cover("success")
	}
	// an empty queue tells the worker to stop
	vz.Assert(!c.work(context.Background()), "C20/L1/quit-on-shutdown")
}
