//go:build verif

package reconciler

var verifHarnesses = map[string]func(){
	"VerifH_C20_L1_retry": VerifH_C20_L1_retry,
}
