//go:build verif

package configloader

var verifHarnesses = map[string]func(){
	"VerifH_C19_B_layering":  VerifH_C19_B_layering,
	"VerifH_C19_C_configmap": VerifH_C19_C_configmap,
	"VerifH_C19_D_secret":    VerifH_C19_D_secret,
}
