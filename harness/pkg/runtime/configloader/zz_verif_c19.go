//go:build verif

package configloader

import (
	"errors"
	"context"

	"github.com/imdario/mergo"
	corev1 "k8s.io/api/core/v1"

	configv1alpha1 "github.com/furiko-io/furiko/apis/config/v1alpha1"
	vz "github.com/furiko-io/furiko/pkg/zzverif"
)

// verifMerge stands in for mergo.Merge (reflection inside a third-party library,
// not encodable): it records the call and implements "src overrides dst key by
// key" only if the caller passed an option that sets Overwrite, which is what
// the layering protocol relies on. The library's own semantics are trusted.
var verifMergeCalls int
var verifMergePanics bool

func verifMerge(dstAny, srcAny interface{}, opts ...func(*mergo.Config)) error {
	verifMergeCalls++
	if verifMergePanics {
		panic(errInjected)
	}
	cfg := &mergo.Config{}
	for _, o := range opts {
		o(cfg)
	}
	switch dst := dstAny.(type) {
	case *Config:
		src, ok := srcAny.(Config)
		if !ok {
			return errors.New("verifMerge: unsupported source type")
		}
		for k, v := range src {
			if _, ok := (*dst)[k]; !ok || cfg.Overwrite {
				(*dst)[k] = v
			}
		}
		return nil
	case *configv1alpha1.JobExecutionConfig:
		// typed structs (mergo v0.3.12): a source field is copied when it is not "empty"
		// (nil, or a pointer to a zero value) and the destination is nil or overwriting is on
		src, ok := srcAny.(*configv1alpha1.JobExecutionConfig)
		if !ok || src == nil {
			return errors.New("verifMerge: unsupported source type")
		}
		mergeInt := func(d **int64, s *int64) {
			if s != nil && *s != 0 && (*d == nil || cfg.Overwrite) {
				v := *s
				*d = &v
			}
		}
		mergeInt(&dst.DefaultTTLSecondsAfterFinished, src.DefaultTTLSecondsAfterFinished)
		mergeInt(&dst.DefaultPendingTimeoutSeconds, src.DefaultPendingTimeoutSeconds)
		mergeInt(&dst.ForceDeleteTaskTimeoutSeconds, src.ForceDeleteTaskTimeoutSeconds)
		return nil
	}
	return errors.New("verifMerge: unsupported destination type")
}

type verifLoader struct {
	name string
	cfg  Config
	err  error
}

func (l *verifLoader) Name() string                                         { return l.name }
func (l *verifLoader) Start(context.Context) error                          { return nil }
func (l *verifLoader) Load(configv1alpha1.ConfigName) (Config, error)       { return l.cfg, l.err }

// VerifH_C19_B_layering: loadConfig consults the loaders in registration order
// (defaults, ConfigMap, Secret) and lets each later one override key by key;
// a loader error or a panic inside the merge yields an error, never a partial result.
func VerifH_C19_B_layering() {
	verifMergeCalls = 0
	verifMergePanics = false
	m := NewConfigManager()
	names := []string{"defaults", "configmap", "secret"}
	var loaders []*verifLoader
	want := map[string]int{} // key -> index of the loader whose value must win
	failing := -1
	for i, n := range names {
		l := &verifLoader{name: n}
		if vz.Bool(n + ".present") {
			l.cfg = Config{}
			for _, k := range []string{"a", "b"} {
				if vz.Bool(n + ".sets." + k) {
					l.cfg[k] = int64(10*i) + vz.IntRange(n+".val."+k, 0, 1) // 0 = an explicit zero value
					want[k] = i
				}
			}
		}
		if vz.Bool(n + ".fails") {
			l.err = errInjected
			if failing < 0 {
				failing = i
			}
		}
		loaders = append(loaders, l)
		m.AddConfigLoaders(l)
	}
	if vz.Bool("notStarted") {
		_, err := m.loadConfig(configv1alpha1.JobExecutionConfigName)
		vz.Assert(err != nil, "C19/B/not-started-is-an-error")
		return
	}
	vz.Assert(m.Start(context.Background()) == nil, "C19/B/start")
	verifMergePanics = vz.Bool("mergePanics")
	res, err := m.loadConfig(configv1alpha1.JobExecutionConfigName)
	if failing >= 0 || verifMergePanics {
		vz.Assert(err != nil, "C19/B/loader-error-or-merge-panic-is-an-error")
		vz.Assert(res == nil || err != nil, "C19/B/no-partial-result")
		vz.Cover("error-path")
		return
	}
	vz.Assert(err == nil, "C19/B/layering-succeeds")
	vz.Assert(verifMergeCalls == 3, "C19/B/every-loader-consulted")
	for _, k := range []string{"a", "b"} {
		i, set := want[k]
		got, ok := res[k]
		vz.Assert(ok == set, "C19/B/unset-keys-stay-unset")
		if set {
			vz.Assert(got == loaders[i].cfg[k], "C19/B/highest-priority-source-wins")
			if loaders[i].cfg[k] == int64(10*i) {
				vz.Cover("zero-value-wins")
			}
		}
	}
	vz.Cover("layered")
	// a later load reflects the sources as they are then: when the highest layer stops
	// setting a key, the next lower value comes back (nothing sticks between loads)
	top := -1
	for i := len(loaders) - 1; i >= 0; i-- {
		if _, ok := loaders[i].cfg["a"]; ok {
			top = i
			break
		}
	}
	if top >= 0 {
		newCfg := Config{}
		for k, v := range loaders[top].cfg {
			if k != "a" {
				newCfg[k] = v
			}
		}
		loaders[top].cfg = newCfg
		res2, err := m.loadConfig(configv1alpha1.JobExecutionConfigName)
		vz.Assert(err == nil, "C19/B/second-load-succeeds")
		below := -1
		for i := top - 1; i >= 0; i-- {
			if _, ok := loaders[i].cfg["a"]; ok {
				below = i
				break
			}
		}
		got, ok := res2["a"]
		if below < 0 {
			vz.Assert(!ok, "C19/B/removed-override-does-not-stick")
		} else {
			vz.Assert(ok && got == loaders[below].cfg["a"], "C19/B/removed-override-falls-back-to-lower-layer")
		}
		vz.Cover("override-removed")
	}
}

// VerifH_C19_C_configmap: a ConfigMap update replaces the loader's view only if
// every entry decodes; otherwise the previous view is kept unchanged.
func VerifH_C19_C_configmap() {
	l := NewConfigMapLoader(nil, "ns", "cm")
	old := Config{"x": int64(1)}
	l.cache.Store(configv1alpha1.JobExecutionConfigName, old)
	bad := map[string]bool{}
	VerifHook_ConfigMapLoader_unmarshal = func(c *ConfigMapLoader, data string) (Config, error) {
		if bad[data] {
			return nil, errInjected
		}
		return Config{"from": data}, nil
	}
	cm := &corev1.ConfigMap{}
	cm.Namespace = vz.Pick("cm.namespace", "ns", "other")
	cm.Name = vz.Pick("cm.name", "cm", "other")
	cm.Data = map[string]string{}
	anyBad := false
	for _, k := range []string{string(configv1alpha1.JobExecutionConfigName), string(configv1alpha1.CronExecutionConfigName)} {
		if vz.Bool("has." + k) {
			cm.Data[k] = "data-" + k
			if vz.Bool("undecodable." + k) {
				bad["data-"+k] = true
				anyBad = true
			}
		}
	}
	vz.MapOrderNondetFor(cm.Data)
	l.handleUpdate(cm)
	got, ok := l.cache.Load(configv1alpha1.JobExecutionConfigName)
	foreign := cm.Namespace != "ns" || cm.Name != "cm"
	if foreign || anyBad {
		vz.Assert(ok && got["x"] == int64(1), "C19/C/previous-view-kept")
		_, ok2 := l.cache.Load(configv1alpha1.CronExecutionConfigName)
		vz.Assert(!ok2, "C19/C/no-partial-update")
		vz.Cover("kept")
	} else {
		_, has := cm.Data[string(configv1alpha1.JobExecutionConfigName)]
		vz.Assert(ok == has, "C19/C/replaced-by-exactly-the-new-entries")
		if has {
			vz.Assert(got["from"] == "data-"+string(configv1alpha1.JobExecutionConfigName), "C19/C/new-entry-stored")
		}
		vz.Cover("replaced")
	}
}

var errInjected = errors.New("injected failure")

// VerifH_C19_D_secret: the Secret layer is all-or-nothing as well: an update in
// which any entry is not valid base64 or does not decode leaves the previous view
// of the whole Secret in force; a good update replaces it by exactly its entries.
func VerifH_C19_D_secret() {
	l := NewSecretLoader(nil, "ns", "sec")
	old := Config{"x": int64(1)}
	l.cache.Store(configv1alpha1.JobExecutionConfigName, old)
	bad := map[string]bool{}
	VerifHook_ConfigMapLoader_unmarshal = func(c *ConfigMapLoader, data string) (Config, error) {
		if bad[data] {
			return nil, errInjected
		}
		return Config{"from": data}, nil
	}
	sec := &corev1.Secret{}
	sec.Namespace = vz.Pick("secret.namespace", "ns", "other")
	sec.Name = vz.Pick("secret.name", "sec", "other")
	sec.Data = map[string][]byte{}
	anyBad := false
	// base64 of "data-jobs" / "data-cron"
	enc := map[string]string{string(configv1alpha1.JobExecutionConfigName): "ZGF0YS1qb2Jz", string(configv1alpha1.CronExecutionConfigName): "ZGF0YS1jcm9u"}
	dec := map[string]string{string(configv1alpha1.JobExecutionConfigName): "data-jobs", string(configv1alpha1.CronExecutionConfigName): "data-cron"}
	for _, k := range []string{string(configv1alpha1.JobExecutionConfigName), string(configv1alpha1.CronExecutionConfigName)} {
		if !vz.Bool("has." + k) {
			continue
		}
		switch vz.Choice("entry."+k, 3) {
		case 0:
			sec.Data[k] = []byte(enc[k])
		case 1: // not base64 at all
			sec.Data[k] = []byte("%%%not-base64%%%")
			anyBad = true
		case 2: // valid base64 of something that does not decode
			sec.Data[k] = []byte(enc[k])
			bad[dec[k]] = true
			anyBad = true
		}
	}
	vz.MapOrderNondetFor(sec.Data)
	l.handleUpdate(sec)
	got, ok := l.cache.Load(configv1alpha1.JobExecutionConfigName)
	foreign := sec.Namespace != "ns" || sec.Name != "sec"
	if foreign || anyBad {
		vz.Assert(ok && got["x"] == int64(1), "C19/D/previous-view-kept")
		_, ok2 := l.cache.Load(configv1alpha1.CronExecutionConfigName)
		vz.Assert(!ok2, "C19/D/no-partial-update")
		vz.Cover("kept")
	} else {
		_, has := sec.Data[string(configv1alpha1.JobExecutionConfigName)]
		vz.Assert(ok == has, "C19/D/replaced-by-exactly-the-new-entries")
		if has {
			vz.Assert(got["from"] == "data-jobs", "C19/D/new-entry-stored")
		}
		vz.Cover("replaced")
	}
}
