//go:build verif

package controllercontext

var verifHarnesses = map[string]func(){
	"VerifH_C19_A_lastKnownGood": VerifH_C19_A_lastKnownGood,
}
