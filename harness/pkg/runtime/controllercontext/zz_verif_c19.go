//go:build verif

package controllercontext

import (
	"errors"
	"context"

	"k8s.io/utils/pointer"

	configv1alpha1 "github.com/furiko-io/furiko/apis/config/v1alpha1"
	"github.com/furiko-io/furiko/pkg/runtime/configloader"
	vz "github.com/furiko-io/furiko/pkg/zzverif"
)

// VerifH_C19_A_lastKnownGood: readers of the dynamic configuration get the new
// value when loading succeeds, the last good value (exactly, with nothing of a
// partially decoded value surviving) when it fails, and an error only if there
// never was a good value. Loading + decoding (mergo, mapstructure) is a stub
// that succeeds with an arbitrary value or fails after partially writing.
func VerifH_C19_A_lastKnownGood() {
	mgr := configloader.NewConfigManager()
	vz.Assert(mgr.Start(context.Background()) == nil, "C19/A/start")
	cfgs := NewContextConfigs(mgr)
	var outcome struct {
		fail    bool
		ttl     int64
		partial bool
	}
	configloader.VerifHook_ConfigManager_loadAndUnmarshalConfigWithError = func(c *configloader.ConfigManager, name configv1alpha1.ConfigName, out interface{}) error {
		cfg, ok := out.(*configv1alpha1.JobExecutionConfig)
		vz.Assert(ok, "C19/A/typed-out")
		if outcome.fail {
			if outcome.partial {
				// garbage left behind by a failed decode: in a field the good value sets, and in one it leaves unset
				cfg.DefaultTTLSecondsAfterFinished = pointer.Int64(-7)
				cfg.DefaultPendingTimeoutSeconds = pointer.Int64(-9)
			}
			return errInjected
		}
		cfg.DefaultTTLSecondsAfterFinished = pointer.Int64(outcome.ttl)
		return nil
	}
	// history: K loads with arbitrary outcomes; ghost = last good value
	hasGood := false
	var good int64
	k := 2
	if vz.Thorough() {
		k = 3
	}
	for i := 0; i < k; i++ {
		outcome.fail = vz.Bool("load.fails")
		outcome.partial = vz.Bool("load.partialWrite")
		outcome.ttl = vz.IntRange("load.ttl", 0, 1<<20)
		got, err := cfgs.Jobs()
		switch {
		case !outcome.fail:
			vz.Assert(err == nil && got != nil && *got.DefaultTTLSecondsAfterFinished == outcome.ttl, "C19/A/success-returns-new-value")
			hasGood, good = true, outcome.ttl
			vz.Cover("fresh")
		case hasGood:
			vz.Assert(err == nil && got != nil, "C19/A/failure-degrades-to-last-good")
			if got != nil {
				vz.Assert(got.DefaultTTLSecondsAfterFinished != nil && *got.DefaultTTLSecondsAfterFinished == good, "C19/A/last-good-value-exactly")
				vz.Assert(got.DefaultPendingTimeoutSeconds == nil, "C19/A/nothing-of-the-failed-load-survives")
			}
			vz.Cover("degraded")
		default:
			vz.Assert(err != nil, "C19/A/no-good-value-yet-is-an-error")
			vz.Cover("no-good-value")
		}
	}
}

var errInjected = errors.New("injected failure")
