//go:build verif

package zzverif

import "time"

// SymExpr is the cron contract stub: Next(t) returns an arbitrary whole-second
// instant strictly after t (or the zero time: no further match), with results
// function-consistent and monotone across calls:
//   t1 <= t2            => n1 <= n2            (zero = +infinity)
//   t1 <= t2 < n1       => n2 == n1
// and, for one arbitrary witness instant W assumed to match the expression,
// "no match lies strictly between t and Next(t)" instantiated at W.
type SymCall struct {
	T, N time.Time
	Has  bool
}

type SymExpr struct {
	Name      string
	Calls     []SymCall
	HasW      bool
	W         time.Time
	NeverEnds bool
	ExpectLoc *time.Location
	CheckLoc  bool
	NCalls    int
}

func le(a, b time.Time) bool { return !b.Before(a) }

func consistent(t1, n1 time.Time, has1 bool, t2, n2 time.Time, has2 bool) bool {
	// assumes t1 <= t2 is handled by the caller through Implies
	mono := And(Implies(!has1, !has2), Implies(And(has1, has2), le(n1, n2)))
	same := Implies(Or(!has1, t2.Before(n1)), And(Iff(has1, has2), Implies(And(has1, has2), n1.Equal(n2))))
	return And(mono, same)
}

func (e *SymExpr) Next(t time.Time) time.Time {
	if e.CheckLoc {
		Assert(t.Location() == e.ExpectLoc, "C01/effective-timezone")
	}
	e.NCalls++
	has := true
	if !e.NeverEnds {
		has = Bool(e.Name + ".hasNext")
	}
	n := time.Time{}
	if has {
		n = time.Unix(IntRange(e.Name+".next", 0, 1<<37), 0).In(t.Location())
		Assume(n.After(t))
	}
	for _, c := range e.Calls {
		Assume(Implies(le(c.T, t), consistent(c.T, c.N, c.Has, t, n, has)))
		Assume(Implies(le(t, c.T), consistent(t, n, has, c.T, c.N, c.Has)))
	}
	if e.HasW {
		Assume(Not(And(t.Before(e.W), Or(!has, e.W.Before(n)))))
	}
	e.Calls = append(e.Calls, SymCall{T: t, N: n, Has: has})
	return n
}

// Seed records a past call (used to tie a heap priority to the expression).
func (e *SymExpr) Seed(t, n time.Time) {
	if e.HasW {
		Assume(Not(And(t.Before(e.W), e.W.Before(n))))
	}
	e.Calls = append(e.Calls, SymCall{T: t, N: n, Has: true})
}

// Ended reports whether some call answered "no further match": the expression
// has no occurrence after that call's instant.
func (e *SymExpr) Ended() bool {
	r := false
	for _, c := range e.Calls {
		r = Or(r, !c.Has)
	}
	return r
}

// Returned reports whether ts equals a value some call returned.
func (e *SymExpr) Returned(ts time.Time) bool {
	r := false
	for _, c := range e.Calls {
		r = Or(r, And(c.Has, c.N.Equal(ts)))
	}
	return r
}
