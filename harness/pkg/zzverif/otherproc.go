//go:build verif

package zzverif

import (
	"bufio"
	"bytes"
	"fmt"
	"os"
	"os/exec"
	"path/filepath"
	"strconv"
	"strings"
)

// OtherProcess returns the value f computes in ANOTHER process of the same
// binary that replays the same inputs: natively the test binary re-executes
// itself on the current replay file (child mode) and the child's value for key
// is returned; in a child it is f's own value. The engine runs f with every
// process-dependent source (hash/maphash seeds, ...) re-drawn.
func OtherProcess(key string, f func() string) string {
	own := f()
	if os.Getenv("VERIF_CHILD") != "" {
		fmt.Printf("VERIF-CHILD %s %s\n", key, strconv.Quote(own))
		return own
	}
	if cur == nil || cur.Replay == nil || cur.Replay.File == "" {
		return own
	}
	if cur.child == nil {
		cur.child = map[string]string{}
		dir, err := os.MkdirTemp("", "verif-child")
		if err != nil {
			panic(err)
		}
		defer os.RemoveAll(dir)
		b, err := os.ReadFile(cur.Replay.File)
		if err != nil {
			panic(err)
		}
		if err := os.WriteFile(filepath.Join(dir, "r.json"), b, 0o644); err != nil {
			panic(err)
		}
		cmd := exec.Command(os.Args[0], "-test.run", "^TestVerifReplay$", "-test.count=1")
		cmd.Env = append(os.Environ(), "VERIF_CHILD=1", "VERIF_REPLAY_DIR="+dir)
		out, _ := cmd.CombinedOutput()
		sc := bufio.NewScanner(bytes.NewReader(out))
		sc.Buffer(make([]byte, 1<<20), 1<<20)
		for sc.Scan() {
			l := sc.Text()
			if !strings.HasPrefix(l, "VERIF-CHILD ") {
				continue
			}
			rest := strings.TrimPrefix(l, "VERIF-CHILD ")
			i := strings.IndexByte(rest, ' ')
			if i < 0 {
				continue
			}
			v, err := strconv.Unquote(rest[i+1:])
			if err == nil {
				cur.child[rest[:i]] = v
			}
		}
	}
	v, ok := cur.child[key]
	if !ok {
		cur.Diverged = "child process produced no value for " + key
		return own
	}
	return v
}
