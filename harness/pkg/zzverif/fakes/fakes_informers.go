//go:build verif

package fakes

import (
	furikoinformers "github.com/furiko-io/furiko/pkg/generated/informers/externalversions"
	executiongroup "github.com/furiko-io/furiko/pkg/generated/informers/externalversions/execution"
	executioninformers "github.com/furiko-io/furiko/pkg/generated/informers/externalversions/execution/v1alpha1"
	"github.com/furiko-io/furiko/pkg/runtime/controllercontext"
)

// Informers: the chain ctx.Informers().Furiko().Execution().V1alpha1().Jobs()/JobConfigs().
type Informers struct {
	controllercontext.Informers
	JobInf       *JobInformer
	JobConfigInf *JobConfigInformer
}

func (i *Informers) Furiko() furikoinformers.SharedInformerFactory { return &furikoFactory{i: i} }

type furikoFactory struct {
	furikoinformers.SharedInformerFactory
	i *Informers
}

func (f *furikoFactory) Execution() executiongroup.Interface { return &executionGroup{f.i} }

type executionGroup struct{ i *Informers }

func (g *executionGroup) V1alpha1() executioninformers.Interface { return &v1alpha1Informers{g.i} }

type v1alpha1Informers struct{ i *Informers }

func (v *v1alpha1Informers) Jobs() executioninformers.JobInformer             { return v.i.JobInf }
func (v *v1alpha1Informers) JobConfigs() executioninformers.JobConfigInformer { return v.i.JobConfigInf }
