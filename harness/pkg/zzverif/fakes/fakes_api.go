//go:build verif

package fakes

import (
	"context"
	"fmt"
	"time"

	kerrors "k8s.io/apimachinery/pkg/api/errors"
	metav1 "k8s.io/apimachinery/pkg/apis/meta/v1"
	"k8s.io/apimachinery/pkg/labels"
	"k8s.io/apimachinery/pkg/runtime"
	"k8s.io/client-go/tools/cache"
	"k8s.io/client-go/tools/record"
	"k8s.io/client-go/util/workqueue"

	execution "github.com/furiko-io/furiko/apis/execution/v1alpha1"
	furikoclient "github.com/furiko-io/furiko/pkg/generated/clientset/versioned"
	execclient "github.com/furiko-io/furiko/pkg/generated/clientset/versioned/typed/execution/v1alpha1"
	executioninformers "github.com/furiko-io/furiko/pkg/generated/informers/externalversions/execution/v1alpha1"
	executionlisters "github.com/furiko-io/furiko/pkg/generated/listers/execution/v1alpha1"
	"github.com/furiko-io/furiko/pkg/runtime/controllercontext"
	vz "github.com/furiko-io/furiko/pkg/zzverif"
)

// ---- Job lister / informer ----

type JobLister struct {
	executionlisters.JobLister
	Items []*execution.Job
	Err   error
}

func (l *JobLister) List(selector labels.Selector) ([]*execution.Job, error) {
	if l.Err != nil {
		return nil, l.Err
	}
	var out []*execution.Job
	for _, it := range l.Items {
		if selector.Matches(labels.Set(it.Labels)) {
			out = append(out, it)
		}
	}
	return out, nil
}

func (l *JobLister) Jobs(namespace string) executionlisters.JobNamespaceLister {
	return &jobNamespaceLister{l: l, ns: namespace}
}

type jobNamespaceLister struct {
	executionlisters.JobNamespaceLister
	l  *JobLister
	ns string
}

func (l *jobNamespaceLister) List(selector labels.Selector) ([]*execution.Job, error) {
	if l.l.Err != nil {
		return nil, l.l.Err
	}
	var out []*execution.Job
	for _, it := range l.l.Items {
		if it.Namespace == l.ns && selector.Matches(labels.Set(it.Labels)) {
			out = append(out, it)
		}
	}
	return out, nil
}

func (l *jobNamespaceLister) Get(name string) (*execution.Job, error) {
	if l.l.Err != nil {
		return nil, l.l.Err
	}
	for _, it := range l.l.Items {
		if it.Namespace == l.ns && it.Name == name {
			return it, nil
		}
	}
	return nil, kerrors.NewNotFound(execution.Resource("job"), name)
}

type JobInformer struct {
	executioninformers.JobInformer
	Inf *SharedInformer
	L   executionlisters.JobLister
}

func (i *JobInformer) Informer() cache.SharedIndexInformer { return i.Inf }
func (i *JobInformer) Lister() executionlisters.JobLister   { return i.L }

// ---- stores ----

type Stores struct {
	controllercontext.Stores
	Active controllercontext.ActiveJobStore
	Err    error
}

func (s *Stores) ActiveJobStore() (controllercontext.ActiveJobStore, error) { return s.Active, s.Err }

// ---- work queue ----

type QueueOp struct {
	Op    string // add, addAfter, addRateLimited, forget, done
	Key   string
	After time.Duration
	At    time.Time // harness clock reading when armed
}

type Queue struct {
	workqueue.RateLimitingInterface
	Ops      []QueueOp
	Requeues int
	Items    []interface{}
}

// Get pops the next pending item (quit = true when nothing is pending).
func (q *Queue) Get() (interface{}, bool) {
	if len(q.Items) == 0 {
		return nil, true
	}
	it := q.Items[0]
	q.Items = q.Items[1:]
	return it, false
}

func (q *Queue) Add(item interface{}) { q.Ops = append(q.Ops, QueueOp{Op: "add", Key: item.(string)}) }
func (q *Queue) AddAfter(item interface{}, d time.Duration) {
	q.Ops = append(q.Ops, QueueOp{Op: "addAfter", Key: item.(string), After: d, At: vz.Now()})
}
func (q *Queue) AddRateLimited(item interface{}) {
	q.Ops = append(q.Ops, QueueOp{Op: "addRateLimited", Key: item.(string)})
}
func (q *Queue) Forget(item interface{})          { q.Ops = append(q.Ops, QueueOp{Op: "forget", Key: item.(string)}) }
func (q *Queue) Done(item interface{})            { q.Ops = append(q.Ops, QueueOp{Op: "done", Key: item.(string)}) }
func (q *Queue) NumRequeues(item interface{}) int { return q.Requeues }
func (q *Queue) Len() int                         { return 0 }

func (q *Queue) Count(op string) int {
	n := 0
	for _, o := range q.Ops {
		if o.Op == op {
			n++
		}
	}
	return n
}

// ---- event recorder ----

type Recorder struct{ Events int }

var _ record.EventRecorder = (*Recorder)(nil)

func (r *Recorder) Event(object runtime.Object, eventtype, reason, message string) { r.Events++ }
func (r *Recorder) Eventf(object runtime.Object, eventtype, reason, messageFmt string, args ...interface{}) {
	r.Events++
}
func (r *Recorder) AnnotatedEventf(object runtime.Object, annotations map[string]string, eventtype, reason, messageFmt string, args ...interface{}) {
	r.Events++
}

// ---- typed API client ----

type APICall struct {
	Verb      string // create, update, updateStatus, delete, get
	Kind      string
	Namespace string
	Name      string
	Job       *execution.Job
	JobConfig *execution.JobConfig
	Applied   bool
	Err       error
	At        time.Time
}

// API records every call; Decide (set by the harness) may fail a call before it
// takes effect (error without effect).
type API struct {
	Calls  []*APICall
	Decide func(c *APICall) error
	Apply  func(c *APICall)
}

func (a *API) do(c *APICall) error {
	c.At = vz.Now()
	a.Calls = append(a.Calls, c)
	if a.Decide != nil {
		if err := a.Decide(c); err != nil {
			c.Err = err
			return err
		}
	}
	c.Applied = true
	if a.Apply != nil {
		a.Apply(c)
	}
	return nil
}

func (a *API) Applied(verb string) []*APICall {
	var out []*APICall
	for _, c := range a.Calls {
		if c.Applied && c.Verb == verb {
			out = append(out, c)
		}
	}
	return out
}

var errInjected = kerrors.NewBadRequest("injected")

// ErrorOfKind builds a real apimachinery StatusError of the chosen kind.
func ErrorOfKind(kind int, name string) error {
	switch kind {
	case 0:
		return kerrors.NewConflict(execution.Resource("job"), name, nil)
	case 1:
		return kerrors.NewInternalError(errInjected)
	case 2:
		return kerrors.NewServerTimeout(execution.Resource("job"), "update", 1)
	case 3:
		return kerrors.NewAlreadyExists(execution.Resource("job"), name)
	case 4:
		return kerrors.NewNotFound(execution.Resource("job"), name)
	case 6:
		return context.DeadlineExceeded // a single client-side timeout of one call
	case 7:
		return fmt.Errorf("Post %q: %w", name, context.Canceled)
	case 8:
		// refused for now, not for ever: quota exhausted, namespace terminating, RBAC not yet propagated
		return kerrors.NewForbidden(execution.Resource("job"), name, errInjected)
	}
	return kerrors.NewBadRequest("bad")
}

type ExecClient struct {
	execclient.ExecutionV1alpha1Interface
	A *API
}

func (c *ExecClient) Jobs(ns string) execclient.JobInterface             { return &jobsClient{a: c.A, ns: ns} }
func (c *ExecClient) JobConfigs(ns string) execclient.JobConfigInterface { return &jobConfigsClient{a: c.A, ns: ns} }

type jobsClient struct {
	execclient.JobInterface
	a  *API
	ns string
}

func (c *jobsClient) Create(ctx context.Context, job *execution.Job, opts metav1.CreateOptions) (*execution.Job, error) {
	if err := c.a.do(&APICall{Verb: "create", Kind: "Job", Namespace: c.ns, Name: job.Name, Job: job}); err != nil {
		return nil, err
	}
	return job, nil
}
func (c *jobsClient) Update(ctx context.Context, job *execution.Job, opts metav1.UpdateOptions) (*execution.Job, error) {
	if err := c.a.do(&APICall{Verb: "update", Kind: "Job", Namespace: c.ns, Name: job.Name, Job: job}); err != nil {
		return nil, err
	}
	return job, nil
}
func (c *jobsClient) UpdateStatus(ctx context.Context, job *execution.Job, opts metav1.UpdateOptions) (*execution.Job, error) {
	if err := c.a.do(&APICall{Verb: "updateStatus", Kind: "Job", Namespace: c.ns, Name: job.Name, Job: job}); err != nil {
		return nil, err
	}
	return job, nil
}
func (c *jobsClient) Delete(ctx context.Context, name string, opts metav1.DeleteOptions) error {
	return c.a.do(&APICall{Verb: "delete", Kind: "Job", Namespace: c.ns, Name: name})
}

type jobConfigsClient struct {
	execclient.JobConfigInterface
	a  *API
	ns string
}

func (c *jobConfigsClient) Update(ctx context.Context, jc *execution.JobConfig, opts metav1.UpdateOptions) (*execution.JobConfig, error) {
	if err := c.a.do(&APICall{Verb: "update", Kind: "JobConfig", Namespace: c.ns, Name: jc.Name, JobConfig: jc}); err != nil {
		return nil, err
	}
	return jc, nil
}
func (c *jobConfigsClient) UpdateStatus(ctx context.Context, jc *execution.JobConfig, opts metav1.UpdateOptions) (*execution.JobConfig, error) {
	if err := c.a.do(&APICall{Verb: "updateStatus", Kind: "JobConfig", Namespace: c.ns, Name: jc.Name, JobConfig: jc}); err != nil {
		return nil, err
	}
	return jc, nil
}

// ---- clientsets ----

type FurikoClientset struct {
	furikoclient.Interface
	Exec *ExecClient
}

func (c *FurikoClientset) ExecutionV1alpha1() execclient.ExecutionV1alpha1Interface { return c.Exec }

type Clientsets struct {
	controllercontext.Clientsets
	F *FurikoClientset
}

func (c *Clientsets) Furiko() furikoclient.Interface { return c.F }
