//go:build verif

// Package fakes holds hand-written fakes of the exported environment
// interfaces (clock, dynamic config, listers/informers, work queue). Each answer
// the environment may give is drawn by the harness, within the interface's
// documented contract.
package fakes

import (
	"time"

	kerrors "k8s.io/apimachinery/pkg/api/errors"
	"k8s.io/apimachinery/pkg/labels"
	"k8s.io/client-go/tools/cache"
	"k8s.io/utils/clock"

	configv1alpha1 "github.com/furiko-io/furiko/apis/config/v1alpha1"
	execution "github.com/furiko-io/furiko/apis/execution/v1alpha1"
	executioninformers "github.com/furiko-io/furiko/pkg/generated/informers/externalversions/execution/v1alpha1"
	executionlisters "github.com/furiko-io/furiko/pkg/generated/listers/execution/v1alpha1"
	"github.com/furiko-io/furiko/pkg/runtime/controllercontext"
	vz "github.com/furiko-io/furiko/pkg/zzverif"
)

// ---- clock ----

type Clock struct{ clock.Clock }

func (Clock) Now() time.Time                  { return vz.Now() }
func (Clock) Since(t time.Time) time.Duration { return vz.Since(t) }

// ---- dynamic configuration ----

type Configs struct {
	controllercontext.Configs
	JobCfg       *configv1alpha1.JobExecutionConfig
	JobConfigCfg *configv1alpha1.JobConfigExecutionConfig
	CronCfg      *configv1alpha1.CronExecutionConfig
	Err          error
}

func (c *Configs) Jobs() (*configv1alpha1.JobExecutionConfig, error) { return c.JobCfg, c.Err }
func (c *Configs) JobConfigs() (*configv1alpha1.JobConfigExecutionConfig, error) {
	return c.JobConfigCfg, c.Err
}
func (c *Configs) Cron() (*configv1alpha1.CronExecutionConfig, error) { return c.CronCfg, c.Err }

type Context struct {
	controllercontext.Context
	Cfg *Configs
	St  *Stores
	Cs  *Clientsets
	Inf *Informers
}

func (c *Context) Informers() controllercontext.Informers { return c.Inf }

func (c *Context) Clientsets() controllercontext.Clientsets { return c.Cs }

func (c *Context) Configs() controllercontext.Configs { return c.Cfg }
func (c *Context) Stores() controllercontext.Stores   { return c.St }

// ---- JobConfig lister / informer ----

type JobConfigLister struct {
	executionlisters.JobConfigLister
	Items []*execution.JobConfig
}

func (l *JobConfigLister) List(selector labels.Selector) ([]*execution.JobConfig, error) {
	return append([]*execution.JobConfig{}, l.Items...), nil
}

func (l *JobConfigLister) JobConfigs(namespace string) executionlisters.JobConfigNamespaceLister {
	return &jobConfigNamespaceLister{l: l, ns: namespace}
}

type jobConfigNamespaceLister struct {
	executionlisters.JobConfigNamespaceLister
	l  *JobConfigLister
	ns string
}

func (l *jobConfigNamespaceLister) List(selector labels.Selector) ([]*execution.JobConfig, error) {
	var out []*execution.JobConfig
	for _, it := range l.l.Items {
		if l.ns == "" || it.Namespace == l.ns {
			out = append(out, it)
		}
	}
	return out, nil
}

func (l *jobConfigNamespaceLister) Get(name string) (*execution.JobConfig, error) {
	for _, it := range l.l.Items {
		if it.Namespace == l.ns && it.Name == name {
			return it, nil
		}
	}
	return nil, kerrors.NewNotFound(execution.Resource("jobconfig"), name)
}

type SharedInformer struct {
	cache.SharedIndexInformer
	Handlers []cache.ResourceEventHandler
}

func (s *SharedInformer) AddEventHandler(h cache.ResourceEventHandler) {
	s.Handlers = append(s.Handlers, h)
}
func (s *SharedInformer) HasSynced() bool { return true }

type JobConfigInformer struct {
	executioninformers.JobConfigInformer
	Inf *SharedInformer
	L   *JobConfigLister
}

func (i *JobConfigInformer) Informer() cache.SharedIndexInformer     { return i.Inf }
func (i *JobConfigInformer) Lister() executionlisters.JobConfigLister { return i.L }
