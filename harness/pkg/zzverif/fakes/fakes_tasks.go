//go:build verif

package fakes

import (
	"context"

	kerrors "k8s.io/apimachinery/pkg/api/errors"
	metav1 "k8s.io/apimachinery/pkg/apis/meta/v1"
	"k8s.io/apimachinery/pkg/runtime/schema"

	execution "github.com/furiko-io/furiko/apis/execution/v1alpha1"
	"github.com/furiko-io/furiko/pkg/execution/tasks"
)

// Task is a fake tasks.Task whose observable state is set by the harness.
type Task struct {
	Name       string
	Ref        execution.TaskRef
	Owners     []metav1.OwnerReference
	DeletionTS *metav1.Time
	Retry      int64
	PIndex     *execution.ParallelIndex
}

var _ tasks.Task = (*Task)(nil)

func (t *Task) GetOwnerReferences() []metav1.OwnerReference { return t.Owners }
func (t *Task) GetName() string                              { return t.Name }
func (t *Task) GetTaskRef() execution.TaskRef                { return t.Ref }
func (t *Task) GetKind() string                              { return "Pod" }
func (t *Task) GetRetryIndex() (int64, bool)                 { return t.Retry, true }
func (t *Task) GetParallelIndex() (*execution.ParallelIndex, bool) {
	return t.PIndex, t.PIndex != nil
}
func (t *Task) GetDeletionTimestamp() *metav1.Time { return t.DeletionTS }

type TaskCall struct {
	Verb  string // create, delete
	Name  string
	Index tasks.TaskIndex
	Force bool
	Err   error
}

// TaskEnv is a fake task executor: a cache view (lister) and a recording client
// whose outcomes are decided by harness callbacks.
type TaskEnv struct {
	Cache    []*Task
	GetErr   func(name string) error // non-NotFound lister failure
	Calls    []*TaskCall
	OnCreate func(index tasks.TaskIndex) (tasks.Task, error)
	OnDelete func(name string, force bool) error
}

var podResource = schema.GroupResource{Resource: "pods"}

func (e *TaskEnv) ForJob(rj *execution.Job) (tasks.Executor, error) { return e, nil }
func (e *TaskEnv) Lister() tasks.TaskLister                          { return &taskLister{e} }
func (e *TaskEnv) Client() tasks.TaskClient                          { return &taskClient{e} }

type taskLister struct{ e *TaskEnv }

func (l *taskLister) Get(name string) (tasks.Task, error) {
	if l.e.GetErr != nil {
		if err := l.e.GetErr(name); err != nil {
			return nil, err
		}
	}
	for _, t := range l.e.Cache {
		if t.Name == name {
			return t, nil
		}
	}
	return nil, kerrors.NewNotFound(podResource, name)
}
func (l *taskLister) Index(index tasks.TaskIndex) (tasks.Task, error) { panic("not used") }
func (l *taskLister) List() ([]tasks.Task, error) {
	out := make([]tasks.Task, 0, len(l.e.Cache))
	for _, t := range l.e.Cache {
		out = append(out, t)
	}
	return out, nil
}

type taskClient struct{ e *TaskEnv }

func (c *taskClient) CreateIndex(ctx context.Context, index tasks.TaskIndex) (tasks.Task, error) {
	call := &TaskCall{Verb: "create", Index: index}
	c.e.Calls = append(c.e.Calls, call)
	t, err := c.e.OnCreate(index)
	call.Err = err
	if t != nil {
		call.Name = t.GetName()
	}
	return t, err
}
func (c *taskClient) Get(ctx context.Context, name string) (tasks.Task, error) { panic("not used") }
func (c *taskClient) Index(ctx context.Context, index tasks.TaskIndex) (tasks.Task, error) {
	panic("not used")
}
func (c *taskClient) Delete(ctx context.Context, name string, force bool) error {
	call := &TaskCall{Verb: "delete", Name: name, Force: force}
	c.e.Calls = append(c.e.Calls, call)
	if c.e.OnDelete != nil {
		call.Err = c.e.OnDelete(name, force)
	}
	return call.Err
}

func (e *TaskEnv) CallsOf(verb string) []*TaskCall {
	var out []*TaskCall
	for _, c := range e.Calls {
		if c.Verb == verb {
			out = append(out, c)
		}
	}
	return out
}

// NotFoundPod is the error a pod lister returns for a missing pod.
func NotFoundPod(name string) error { return kerrors.NewNotFound(podResource, name) }

// AlreadyExistsPod is the error a create returns when the name is taken.
func AlreadyExistsPod(name string) error { return kerrors.NewAlreadyExists(podResource, name) }
