//go:build verif

package zzverif

import (
	"fmt"
	"os"
	"path/filepath"
	"runtime/debug"
	"sort"
	"strings"
)

// ReplayAll is called by each package's TestVerifReplay: it runs every replay
// file in $VERIF_REPLAY_DIR whose harness is registered in reg and prints one
// machine-readable block per file.
func ReplayAll(reg map[string]func()) {
	dir := os.Getenv("VERIF_REPLAY_DIR")
	if dir == "" {
		return
	}
	files, _ := filepath.Glob(filepath.Join(dir, "*.json"))
	sort.Strings(files)
	for _, f := range files {
		r, err := LoadReplay(f)
		if err != nil {
			fmt.Printf("VERIF-REPLAY file=%s error=%v\n", f, err)
			continue
		}
		short := r.Harness
		if i := strings.LastIndex(short, "."); i >= 0 {
			short = short[i+1:]
		}
		fn, ok := reg[short]
		if !ok {
			continue
		}
		var st *State
		var pv interface{}
		var stack string
		func() {
			defer func() {
				if e := recover(); e != nil {
					pv = e
					stack = string(debug.Stack())
				}
			}()
			st, pv = RunHarness(r, fn)
		}()
		if st == nil {
			st = cur
		}
		fmt.Printf("VERIF-REPLAY-BEGIN file=%s harness=%s\n", f, r.Harness)
		for _, id := range st.Failed {
			fmt.Printf("VERIF-ASSERT-FAIL %s\n", id)
		}
		if pv != nil {
			fmt.Printf("VERIF-PANIC %v\n", strings.ReplaceAll(fmt.Sprint(pv), "\n", " "))
			_ = stack
		}
		if st.Diverged != "" {
			fmt.Printf("VERIF-DIVERGED %s\n", st.Diverged)
		}
		if st.Remaining() > 0 && len(st.Failed) == 0 && pv == nil && st.Diverged == "" {
			fmt.Printf("VERIF-DIVERGED %d unread inputs\n", st.Remaining())
		}
		keys := make([]string, 0, len(st.Observed))
		for k := range st.Observed {
			keys = append(keys, k)
		}
		sort.Strings(keys)
		for _, k := range keys {
			fmt.Printf("VERIF-OBSERVE %s=%s\n", k, strings.ReplaceAll(st.Observed[k], "\n", "\\n"))
		}
		for _, c := range st.Covered {
			fmt.Printf("VERIF-COVER %s\n", c)
		}
		fmt.Printf("VERIF-REPLAY-END file=%s\n", f)
	}
}
