//go:build verif

// Package zzverif is the harness runtime. Under the gosym engine every function
// here that draws an input or states an assumption/assertion is intercepted;
// compiled natively the same functions pop the recorded values of a replay file,
// so that the identical harness is the replay test.
package zzverif

import (
	"encoding/json"
	"sync/atomic"
	"fmt"
	"os"
	"strconv"
	"time"
)

type ReplayInput struct {
	Name  string `json:"name"`
	Kind  string `json:"kind"`
	Value string `json:"value"`
}

type Replay struct {
	Harness  string            `json:"harness"`
	AssertID string            `json:"assert_id"`
	Inputs   []ReplayInput     `json:"inputs"`
	Observes map[string]string `json:"observes"`
	File     string            `json:"-"`
}

type AssumeFalse struct{}
type AssertStop struct{ ID string }

type State struct {
	Replay   *Replay
	pos      int
	Failed   []string
	Observed map[string]string
	Covered  []string
	Findings []string
	Diverged string
	thorough bool
	child    map[string]string
}

var cur *State

// NowFn is the harness clock; furiko's clocks and the redirected time.Now /
// time.Until / time.Since call sites read it.
var NowFn func() time.Time

func Start(r *Replay) *State {
	cur = &State{Replay: r, Observed: map[string]string{}, thorough: os.Getenv("VERIF_TIER") == "thorough"}
	NowFn = nil
	atomicHook, atomicBudget, inAtomicHook = nil, 0, false
	return cur
}

func LoadReplay(path string) (*Replay, error) {
	b, err := os.ReadFile(path)
	if err != nil {
		return nil, err
	}
	r := &Replay{File: path}
	return r, json.Unmarshal(b, r)
}

func (s *State) Remaining() int { return len(s.Replay.Inputs) - s.pos }

func pop(name, kind string) string {
	if cur == nil {
		panic("zzverif: no replay state (harness run outside the replay test)")
	}
	if cur.pos >= len(cur.Replay.Inputs) {
		cur.Diverged = fmt.Sprintf("input underrun at %q", name)
		panic(AssumeFalse{})
	}
	in := cur.Replay.Inputs[cur.pos]
	cur.pos++
	if in.Name != name || in.Kind != kind {
		cur.Diverged = fmt.Sprintf("input %d: want %s/%s, replay has %s/%s", cur.pos-1, name, kind, in.Name, in.Kind)
		panic(AssumeFalse{})
	}
	return in.Value
}

func Int(name string) int64 {
	v, _ := strconv.ParseInt(pop(name, "int"), 10, 64)
	return v
}

func IntRange(name string, lo, hi int64) int64 {
	v := Int(name)
	if v < lo || v > hi {
		cur.Diverged = fmt.Sprintf("input %q=%d outside [%d,%d]", name, v, lo, hi)
		panic(AssumeFalse{})
	}
	return v
}

func Bool(name string) bool { return pop(name, "bool") == "true" }

func Choice(name string, n int) int { return int(IntRange(name, 0, int64(n)-1)) }

func Concretize(v int64, lo, hi int64) int64 {
	if v < lo || v > hi {
		panic(AssumeFalse{})
	}
	return v
}

func Assume(c bool) {
	if !c {
		panic(AssumeFalse{})
	}
}

// Assert records a violated assertion and goes on (so that every violated
// assertion of a run is reported, whichever property owns it).
func Assert(c bool, id string) {
	if !c {
		cur.Failed = append(cur.Failed, id)
	}
}

func Cover(id string)   { cur.Covered = append(cur.Covered, id) }
func Finding(id string) { cur.Findings = append(cur.Findings, id) }

func Observe(name string, v int64)     { cur.Observed[name] = strconv.FormatInt(v, 10) }
func ObserveBool(name string, v bool)  { cur.Observed[name] = strconv.FormatBool(v) }
func ObserveStr(name string, v string) { cur.Observed[name] = strconv.Quote(v) }

func MapOrderNondet(on bool)          {}

// MapOrderNondetFor marks one map whose iteration order the engine explores.
func MapOrderNondetFor(m interface{}) {}

// MapOrderReps: how often a harness repeats a map-order dependent call. Under
// the engine the iteration order is a symbolic choice, so once; natively the
// order is random, so often enough that every order the engine can report
// (probability >= 1/8 per call) shows up.
func MapOrderReps() int { return 200 }
func Unreachable()                    { panic(AssumeFalse{}) }
func Thorough() bool                  { return cur != nil && cur.thorough }

// HostCall returns the result of a host-side function from the per-run table
// (engine) or by calling the registered function (native).
var HostFuncs = map[string]func(string) string{}

func HostCall(name, arg string) string { return HostFuncs[name](arg) }

// HostCallInt is HostCall(name, prefix+itoa(i)); under the engine i may be symbolic.
func HostCallInt(name, prefix string, i int64) string {
	return HostFuncs[name](prefix + strconv.FormatInt(i, 10))
}

var hostCodes = map[string]int64{}

// HostCallIntCode returns an integer that identifies HostCallInt's result: equal
// results have equal codes (the numbers themselves mean nothing and differ
// between the engine and a native run: compare them, never observe them).
func HostCallIntCode(name, prefix string, i int64) int64 {
	v := name + "\x00" + HostCallInt(name, prefix, i)
	c, ok := hostCodes[v]
	if !ok {
		c = int64(len(hostCodes))
		hostCodes[v] = c
	}
	return c
}

// Clock helpers used by redirected call sites.
func Now() time.Time {
	if NowFn != nil {
		return NowFn()
	}
	return time.Now()
}
func Until(t time.Time) time.Duration { return t.Sub(Now()) }
func Since(t time.Time) time.Duration { return Now().Sub(t) }

// Instant draws an arbitrary instant in [1970-01-01, +2^36 s] with any nanosecond.
func Instant(name string) time.Time {
	s := IntRange(name+".sec", 0, 1<<36)
	n := IntRange(name+".nsec", 0, 999999999)
	return time.Unix(s, n)
}

// InstantNear draws an instant in [1970-01-01, +2^32 s] (differences between two
// such instants never saturate time.Duration).
func InstantNear(name string) time.Time {
	s := IntRange(name+".sec", 0, 1<<32)
	n := IntRange(name+".nsec", 0, 999999999)
	return time.Unix(s, n)
}

// InstantSec draws an arbitrary whole-second instant.
func InstantSec(name string) time.Time {
	return time.Unix(IntRange(name+".sec", 0, 1<<36), 0)
}

// Pick returns one of the given strings.
func Pick(name string, choices ...string) string { return choices[Choice(name, len(choices))] }

// RunHarness executes fn under replay r and reports what happened.
func RunHarness(r *Replay, fn func()) (st *State, panicked interface{}) {
	st = Start(r)
	defer func() {
		if e := recover(); e != nil {
			switch e.(type) {
			case AssumeFalse:
				if st.Diverged == "" {
					st.Diverged = "assume-false"
				}
			case AssertStop:
			default:
				panicked = e
			}
		}
	}()
	fn()
	return st, nil
}

// Non-branching boolean connectives: natively plain Go, under the engine they
// build one term instead of forking (harness predicates are written with them).
func And(a, b bool) bool     { return a && b }
func Or(a, b bool) bool      { return a || b }
func Not(a bool) bool        { return !a }
func Implies(a, b bool) bool { return !a || b }
func Iff(a, b bool) bool     { return a == b }
func Ite(c bool, a, b int64) int64 {
	if c {
		return a
	}
	return b
}
func IteTime(c bool, a, b time.Time) time.Time {
	if c {
		return a
	}
	return b
}

// Interference at atomic operations: call sites of sync/atomic in the counter
// are redirected here by the overlay rewriter. Before each operation the
// harness-supplied interference function may run (a drawn Bool), at most
// `budget` times: this models other goroutines' effects on the shared counter.
var (
	atomicHook   func()
	atomicBudget int
	inAtomicHook bool
)

func OnAtomic(f func(), budget int) { atomicHook, atomicBudget = f, budget }

func atomicPre() {
	if atomicHook == nil || inAtomicHook || atomicBudget <= 0 {
		return
	}
	if Bool("interfere") {
		atomicBudget--
		inAtomicHook = true
		atomicHook()
		inAtomicHook = false
	}
}

func AtomicAddInt64(p *int64, d int64) int64 { atomicPre(); return atomic.AddInt64(p, d) }
func AtomicLoadInt64(p *int64) int64         { atomicPre(); return atomic.LoadInt64(p) }
func AtomicStoreInt64(p *int64, v int64)     { atomicPre(); atomic.StoreInt64(p, v) }
func AtomicCompareAndSwapInt64(p *int64, o, n int64) bool {
	atomicPre()
	return atomic.CompareAndSwapInt64(p, o, n)
}
