//go:build verif

package validation

import (
	"k8s.io/apimachinery/pkg/util/validation/field"
	"k8s.io/utils/pointer"

	execution "github.com/furiko-io/furiko/apis/execution/v1alpha1"
	"github.com/furiko-io/furiko/pkg/execution/tasks"
	jobutil "github.com/furiko-io/furiko/pkg/execution/util/job"
	"github.com/furiko-io/furiko/pkg/execution/util/parallel"
	"github.com/furiko-io/furiko/pkg/execution/variablecontext"
	vz "github.com/furiko-io/furiko/pkg/zzverif"
)

func verifAccepted(spec *execution.ParallelismSpec) bool {
	v := NewValidator(nil)
	return len(v.ValidateParallelismSpec(spec, field.NewPath("spec"))) == 0
}

func verifSameIndex(a, b execution.ParallelIndex) bool {
	if (a.IndexNumber == nil) != (b.IndexNumber == nil) {
		return false
	}
	if a.IndexNumber != nil && *a.IndexNumber != *b.IndexNumber {
		return false
	}
	if a.IndexKey != b.IndexKey || len(a.MatrixValues) != len(b.MatrixValues) {
		return false
	}
	for k, v := range a.MatrixValues {
		if w, ok := b.MatrixValues[k]; !ok || w != v {
			return false
		}
	}
	return true
}

// VerifH_C14_L1_expansion: an accepted spec expands to exactly the requested
// index set, without panics, identically under every map iteration order, and
// distinct indexes get distinct identities (hash, task name) and their own variables.
func VerifH_C14_L1_expansion() {
	parallel.VerifInstallHashStub()
	spec := &execution.ParallelismSpec{CompletionStrategy: execution.AllSuccessful}
	want := 0
	kind := vz.Choice("kind", 3)
	keysAlphabet := []string{"a", "b", "ab"}
	// (the last two values carry the separators a careless rendering of the value map would use)
	valsAlphabet := []string{"x", "y", "x b:y", "y b:x"}
	switch kind {
	case 0:
		n := vz.IntRange("withCount", -1, 8)
		spec.WithCount = pointer.Int64(n)
		vz.Assume(verifAccepted(spec))
		want = int(vz.Concretize(n, 1, 8))
		spec.WithCount = pointer.Int64(int64(want))
	case 1:
		nk := vz.Choice("nkeys", 4)
		for i := 0; i < nk; i++ {
			spec.WithKeys = append(spec.WithKeys, keysAlphabet[vz.Choice("key", 3)])
		}
		vz.Assume(verifAccepted(spec))
		want = nk
		if nk == 0 {
			return
		}
	case 2:
		spec.WithMatrix = map[string][]string{}
		nm := 1 + vz.Choice("nmatrixkeys", 2)
		if vz.Thorough() {
			nm = 1 + vz.Choice("nmatrixkeys3", 3)
		}
		want = 1
		for i := 0; i < nm; i++ {
			nv := 1
			alphabet := valsAlphabet
			if i == 2 {
				// (thorough only: the third key has the single value x; two or more values from
				// the full alphabet on three keys did not finish in 40 minutes)
				alphabet = valsAlphabet[:1]
			} else {
				nv = vz.Choice("nvals", 3)
			}
			vals := []string{}
			for k := 0; k < nv; k++ {
				vals = append(vals, alphabet[vz.Choice("val", len(alphabet))])
			}
			spec.WithMatrix[[]string{"a", "b", "c"}[i]] = vals
			want *= nv
		}
		vz.Assume(verifAccepted(spec))
	}
	vz.MapOrderNondet(true)
	idx1 := parallel.GenerateIndexes(spec) // a panic here is reported as a violation
	for rep := 0; rep < vz.MapOrderReps(); rep++ {
		idx2 := parallel.GenerateIndexes(spec)
		vz.Assert(len(idx1) == len(idx2), "C14/L1/deterministic-size")
		for i := range idx1 {
			if i < len(idx2) {
				vz.Assert(verifSameIndex(idx1[i], idx2[i]), "C14/L1/deterministic-order")
			}
		}
	}
	vz.MapOrderNondet(false)
	vz.Assert(len(idx1) == want, "C14/L1/complete-index-set")
	for i := range idx1 {
		switch kind {
		case 0:
			vz.Assert(idx1[i].IndexNumber != nil && *idx1[i].IndexNumber == int64(i), "C14/L1/count-index-i-is-i")
		case 1:
			vz.Assert(idx1[i].IndexKey == spec.WithKeys[i], "C14/L1/keys-in-order")
		case 2:
			vz.Assert(len(idx1[i].MatrixValues) == len(spec.WithMatrix), "C14/L1/matrix-combination-has-every-key")
		}
		for k := 0; k < i; k++ {
			if kind == 1 && spec.WithKeys[i] == spec.WithKeys[k] {
				vz.Finding("F14-3")
			}
			if kind == 2 && verifSameIndex(idx1[i], idx1[k]) {
				vz.Finding("F14-3")
			}
			vz.Assert(!verifSameIndex(idx1[i], idx1[k]), "C14/L1/indexes-distinct")
			hi, _ := parallel.HashIndex(idx1[i])
			hk, _ := parallel.HashIndex(idx1[k])
			vz.Assert(hi != hk, "C14/L1/distinct-identity")
		}
		// the task of index i sees exactly index i's values
		vars := variablecontext.ContextProvider.MakeVariablesFromTask(variablecontext.TaskSpec{Name: "t", Namespace: "ns", RetryIndex: 1, ParallelIndex: idx1[i]})
		switch kind {
		case 0:
			vz.Assert(vars["task.index_num"] == []string{"0", "1", "2", "3", "4", "5", "6", "7", "8"}[i], "C14/L1/task-sees-its-index-number")
		case 1:
			vz.Assert(vars["task.index_key"] == spec.WithKeys[i], "C14/L1/task-sees-its-index-key")
		case 2:
			for mk, mv := range idx1[i].MatrixValues {
				vz.Assert(vars["task.index_matrix."+mk] == mv, "C14/L1/task-sees-its-matrix-values")
			}
		}
	}
	if want > 1 {
		vz.Cover("multi-index")
	}
	if kind == 2 && want > 1 {
		vz.Cover("matrix")
	}
}

// VerifH_C14_L2_names: task names are injective in (index identity, retry).
func VerifH_C14_L2_names() {
	parallel.VerifInstallHashStub()
	i1 := execution.ParallelIndex{IndexNumber: pointer.Int64(int64(vz.Choice("i1", 4)))}
	i2 := execution.ParallelIndex{IndexNumber: pointer.Int64(int64(vz.Choice("i2", 4)))}
	r1 := vz.IntRange("r1", 0, 1<<31)
	r2 := vz.IntRange("r2", 0, 1<<31)
	n1, e1 := jobutil.GenerateTaskName("job", tasks.TaskIndex{Retry: r1, Parallel: i1})
	n2, e2 := jobutil.GenerateTaskName("job", tasks.TaskIndex{Retry: r2, Parallel: i2})
	vz.Assert(e1 == nil && e2 == nil, "C14/L2/names-computable")
	same := *i1.IndexNumber == *i2.IndexNumber && r1 == r2
	vz.Assert((n1 == n2) == same, "C14/L2/task-name-injective")
	if same {
		vz.Cover("same")
	}
}

// VerifH_C14_L2_longNames: the same injectivity for Job names of every length a
// Job may have (scheduled Jobs are named <jobconfig>-<unix time>, which easily
// reaches the limit): whatever is done to keep a task name short must not merge
// two indexes or two attempts. Lengths and retry numbers are case-split (the name
// is built with fmt, the lengths decide the shape), the indexes are the first
// three of a withCount Job.
func VerifH_C14_L2_longNames() {
	parallel.VerifInstallHashStub()
	lens := []int{1, 20, 45, 50, 52, 53, 54, 55, 56, 57, 58, 59, 60, 61, 62, 63}
	l := lens[vz.Choice("jobNameLength", len(lens))]
	name := ""
	for k := 0; k < l; k++ {
		name += "j"
	}
	retries := []int64{0, 1, 10}
	i1 := execution.ParallelIndex{IndexNumber: pointer.Int64(int64(vz.Choice("i1", 3)))}
	i2 := execution.ParallelIndex{IndexNumber: pointer.Int64(int64(vz.Choice("i2", 3)))}
	r1 := retries[vz.Choice("r1", 3)]
	r2 := retries[vz.Choice("r2", 3)]
	n1, e1 := jobutil.GenerateTaskName(name, tasks.TaskIndex{Retry: r1, Parallel: i1})
	n2, e2 := jobutil.GenerateTaskName(name, tasks.TaskIndex{Retry: r2, Parallel: i2})
	vz.Assert(e1 == nil && e2 == nil, "C14/L2/names-computable")
	same := *i1.IndexNumber == *i2.IndexNumber && r1 == r2
	vz.Assert((n1 == n2) == same, "C14/L2/task-name-injective")
	if l >= 55 && !same {
		vz.Cover("long-name-distinct-indexes")
	}
}

// the collision pairs below 160 listed under known finding F14-1
var verifKnownCollisions = [][2]int64{}

// VerifH_C14_L3_hashes: for withCount N accepted by validation, no two indexes
// i < j < N share a hash (and therefore a task name and a status slot).
func VerifH_C14_L3_hashes() {
	parallel.VerifInstallHashStub()
	nmax := int64(159)
	if vz.Thorough() {
		nmax = 239
	}
	n := vz.IntRange("withCount", 1, nmax+1)
	spec := &execution.ParallelismSpec{CompletionStrategy: execution.AllSuccessful, WithCount: pointer.Int64(n)}
	vz.Assume(verifAccepted(spec))
	i := vz.IntRange("i", 0, nmax)
	j := vz.IntRange("j", 0, nmax)
	vz.Assume(i < j && j < n)
	hi := vz.HostCallIntCode("HashIndex", "n:", i)
	hj := vz.HostCallIntCode("HashIndex", "n:", j)
	if hi == hj {
		vz.Observe("i", i)
		vz.Observe("j", j)
		known := false
		for _, kc := range verifKnownCollisions {
			known = vz.Or(known, vz.And(i == kc[0], j == kc[1]))
		}
		if known {
			vz.Finding("F14-1")
		}
		vz.Assert(false, "C14/L3/distinct-hashes")
	}
	vz.Cover("checked")
}

// VerifH_C14_L1_wideMatrix: withMatrix with 4 or 5 keys of two values each expands
// to exactly the full product: every combination once, every index distinct in
// value and identity, each task sees its own combination.
func VerifH_C14_L1_wideMatrix() {
	parallel.VerifInstallHashStub()
	nk := 4 + vz.Choice("extraKey", 2)
	keys := []string{"a", "b", "c", "d", "e"}[:nk]
	spec := &execution.ParallelismSpec{CompletionStrategy: execution.AllSuccessful, WithMatrix: map[string][]string{}}
	for _, k := range keys {
		spec.WithMatrix[k] = []string{"x", "y"}
	}
	vz.Assert(verifAccepted(spec), "C14/L1/wide-matrix-accepted")
	vz.MapOrderNondetFor(spec.WithMatrix)
	idx := parallel.GenerateIndexes(spec)
	want := 1 << uint(nk)
	vz.Assert(len(idx) == want, "C14/L1/complete-index-set")
	seen := map[string]bool{}
	var codes []string
	for i := range idx {
		vz.Assert(len(idx[i].MatrixValues) == nk, "C14/L1/matrix-combination-has-every-key")
		code := ""
		for _, k := range keys {
			v := idx[i].MatrixValues[k]
			vz.Assert(v == "x" || v == "y", "C14/L1/matrix-values-from-the-spec")
			code += v
		}
		vz.Assert(!seen[code], "C14/L1/indexes-distinct")
		seen[code] = true
		codes = append(codes, code)
		for k := 0; k < i; k++ {
			hi, _ := parallel.HashIndex(idx[i])
			hk, _ := parallel.HashIndex(idx[k])
			pair := codes[k] + "/" + codes[i]
			if hi == hk && nk == 5 && (pair == "xyxyy/xyyxy" || pair == "xyxyx/yyxxx") {
				// the two collisions of the real HashIndex among the 32 combinations of five
				// two-valued keys, measured on the pinned tree (known finding F14-1)
				vz.Finding("F14-1")
				vz.Assert(false, "C14/L1/distinct-identity-known-matrix-collision")
				continue
			}
			vz.Assert(hi != hk, "C14/L1/distinct-identity")
		}
		vars := variablecontext.ContextProvider.MakeVariablesFromTask(variablecontext.TaskSpec{Name: "t", Namespace: "ns", RetryIndex: 1, ParallelIndex: idx[i]})
		for mk, mv := range idx[i].MatrixValues {
			vz.Assert(vars["task.index_matrix."+mk] == mv, "C14/L1/task-sees-its-matrix-values")
		}
	}
	vz.Assert(len(seen) == want, "C14/L1/every-combination-present")
	vz.Cover("wide")
}
