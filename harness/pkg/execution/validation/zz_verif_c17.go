//go:build verif

package validation

import (
	"time"

	corev1 "k8s.io/api/core/v1"
	metav1 "k8s.io/apimachinery/pkg/apis/meta/v1"
	"k8s.io/apimachinery/pkg/util/validation/field"
	"k8s.io/utils/pointer"

	configv1alpha1 "github.com/furiko-io/furiko/apis/config/v1alpha1"
	execution "github.com/furiko-io/furiko/apis/execution/v1alpha1"
	"github.com/furiko-io/furiko/pkg/core/tzutils"
	"github.com/furiko-io/furiko/pkg/execution/util/cron"
	"github.com/furiko-io/furiko/pkg/execution/util/cronschedule"
	"github.com/furiko-io/furiko/pkg/execution/util/jobconfig"
	vz "github.com/furiko-io/furiko/pkg/zzverif"
	"github.com/furiko-io/furiko/pkg/zzverif/fakes"
)

func verifBaseJob() *execution.Job {
	rj := &execution.Job{}
	rj.Namespace = "ns"
	rj.Name = "job"
	rj.Labels = map[string]string{jobconfig.LabelKeyJobConfigUID: "uid1", "other": "x"}
	rj.Spec.Type = execution.JobTypeAdhoc
	rj.Spec.OptionValues = "a: b"
	rj.Spec.Substitutions = map[string]string{"option.a": "1"}
	rj.Spec.StartPolicy = &execution.StartPolicySpec{ConcurrencyPolicy: execution.ConcurrencyPolicyEnqueue}
	rj.Spec.Template = &execution.JobTemplate{
		TaskTemplate: execution.TaskTemplate{Pod: &execution.PodTemplateSpec{Spec: corev1.PodSpec{Containers: []corev1.Container{{Name: "c", Image: "img"}}}}},
		Parallelism:  &execution.ParallelismSpec{WithCount: pointer.Int64(2), CompletionStrategy: execution.AllSuccessful},
		MaxAttempts:  pointer.Int64(2),
		RetryDelaySeconds: pointer.Int64(10),
	}
	return rj
}

// VerifH_C17_L2_immutable: after creation, a change to any of the listed
// fields is rejected; start policy only once the Job has started; the kill
// timestamp only once it has passed; an update that changes none of them is
// accepted by these rules.
func VerifH_C17_L2_immutable() {
	now := vz.InstantNear("now")
	vz.NowFn = func() time.Time { return now }
	Clock = fakes.Clock{}
	old := verifBaseJob()
	started := vz.Bool("started")
	if started {
		t := metav1.NewTime(vz.InstantNear("startTime"))
		old.Status.StartTime = &t
	}
	hasKill := vz.Bool("old.hasKill")
	var oldKill time.Time
	if hasKill {
		oldKill = vz.InstantNear("old.kill")
		t := metav1.NewTime(oldKill)
		old.Spec.KillTimestamp = &t
	}
	nw := old.DeepCopy()
	mustReject := false
	kind := vz.Choice("mutation", 14)
	switch kind {
	case 0: // nothing listed changes (only a mutable field)
		nw.Labels["other"] = "y"
		nw.Spec.Template.TaskPendingTimeoutSeconds = pointer.Int64(5)
		vz.Cover("no-change")
	case 1:
		nw.Spec.Template.TaskTemplate.Pod.Spec.Containers[0].Image = "other"
		mustReject = true
	case 2:
		nw.Spec.Template.Parallelism.WithCount = pointer.Int64(3)
		mustReject = true
	case 3:
		nw.Spec.Template.Parallelism = nil
		mustReject = true
	case 4:
		if vz.Bool("maxAttempts.toNil") {
			nw.Spec.Template.MaxAttempts = nil
		} else {
			m := vz.IntRange("maxAttempts.new", 1, 10)
			vz.Assume(m != 2)
			nw.Spec.Template.MaxAttempts = pointer.Int64(m)
		}
		mustReject = true
	case 5:
		d := vz.IntRange("retryDelay.new", 0, 1000)
		vz.Assume(d != 10)
		nw.Spec.Template.RetryDelaySeconds = pointer.Int64(d)
		mustReject = true
	case 6:
		nw.Spec.Type = execution.JobTypeScheduled
		mustReject = true
	case 7:
		nw.Spec.OptionValues = "a: c"
		mustReject = true
	case 8:
		if vz.Bool("subs.add") {
			nw.Spec.Substitutions["option.b"] = "2"
		} else {
			nw.Spec.Substitutions["option.a"] = "changed"
		}
		mustReject = true
	case 9:
		if vz.Bool("uidLabel.remove") {
			delete(nw.Labels, jobconfig.LabelKeyJobConfigUID)
		} else {
			nw.Labels[jobconfig.LabelKeyJobConfigUID] = "uid2"
		}
		mustReject = true
	case 10: // start policy: frozen once started
		if vz.Bool("startPolicy.policy") {
			nw.Spec.StartPolicy.ConcurrencyPolicy = execution.ConcurrencyPolicyAllow
		} else {
			t := metav1.NewTime(vz.InstantNear("startAfter.new"))
			nw.Spec.StartPolicy.StartAfter = &t
		}
		mustReject = started
		if !started {
			vz.Cover("startPolicy-change-before-start-allowed")
		}
	case 11: // kill timestamp: frozen once passed
		nk := vz.InstantNear("new.kill")
		t := metav1.NewTime(nk)
		nw.Spec.KillTimestamp = &t
		changed := !hasKill || !nk.Equal(oldKill)
		mustReject = hasKill && oldKill.Before(now) && changed
		if hasKill && !oldKill.Before(now) && changed {
			vz.Cover("killTimestamp-change-before-it-passed-allowed")
		}
	case 12: // kill timestamp removed
		nw.Spec.KillTimestamp = nil
		mustReject = hasKill && oldKill.Before(now)
	case 13:
		nw.Spec.ConfigName = "other"
		mustReject = true
	}
	errs := NewValidator(nil).ValidateJobUpdate(old, nw)
	if mustReject {
		vz.Assert(len(errs) > 0, "C17/L2/immutable-field-change-rejected")
		if kind == 11 || kind == 12 {
			// (C12: once the kill time has passed the Job stays killed - the timestamp can be neither moved nor removed)
			vz.Assert(len(errs) > 0, "C12/passed-killTimestamp-cannot-be-changed-or-removed")
			vz.Cover("kill-frozen")
		}
		vz.Cover("rejected")
	} else {
		vz.Assert(len(errs) == 0, "C17/L2/allowed-update-accepted")
		vz.Cover("accepted")
	}
}

// VerifH_C17_L1_schedule: whatever schedule the validator accepts, the cron
// scheduler can load and bump (the same questions are asked on both sides).
// Cron-line parsing and timezone parsing are uninterpreted predicates okCron(line)
// / okTz(name), consistent across all calls.
func VerifH_C17_L1_schedule() {
	now := vz.InstantNear("now")
	vz.NowFn = func() time.Time { return now }
	okCron := map[string]bool{}
	okTz := map[string]bool{"UTC": true}
	for _, l := range []string{"", "x", "y", "z"} {
		okCron[l] = vz.Bool("okCron." + l)
	}
	for _, z := range []string{"A", "B"} {
		okTz[z] = vz.Bool("okTz." + z)
	}
	verifInstallScheduleStubs(okCron, okTz)
	cfg := &configv1alpha1.CronExecutionConfig{}
	switch vz.Choice("defaultTZ", 3) {
	case 1:
		cfg.DefaultTimezone = pointer.String("")
	case 2:
		cfg.DefaultTimezone = pointer.String("A")
		vz.Assume(okTz["A"]) // a broken controller default is not the object's fault
	}
	jc := &execution.JobConfig{}
	jc.Namespace = "ns"
	jc.Name = "jc"
	spec := &execution.ScheduleSpec{Disabled: vz.Bool("disabled")}
	if vz.Bool("hasCron") {
		cs := &execution.CronSchedule{}
		cs.Expression = vz.Pick("expression", "", "x")
		switch vz.Choice("expressions", 4) {
		case 1:
			cs.Expressions = []string{"y"}
		case 2:
			cs.Expressions = []string{"y", "z"}
		case 3:
			cs.Expressions = []string{""}
		}
		cs.Timezone = vz.Pick("timezone", "", "A", "B")
		spec.Cron = cs
	}
	jc.Spec.Schedule = spec
	v := NewValidator(&fakes.Context{Cfg: &fakes.Configs{CronCfg: cfg}})
	errs := v.ValidateScheduleSpec(spec, field.NewPath("spec", "schedule"))
	vz.Assume(len(errs) == 0)
	vz.Cover("accepted")
	sched, err := cronschedule.New([]*execution.JobConfig{jc}, cronschedule.WithClock(fakes.Clock{}), cronschedule.WithConfigLoader(&fakes.Configs{CronCfg: cfg}))
	vz.Assert(err == nil && sched != nil, "C17/L1/accepted-schedule-loads")
	if sched != nil {
		_, err := sched.Bump(jc, now)
		vz.Assert(err == nil, "C17/L1/accepted-schedule-bumps")
	}
	rj, err := jobconfig.NewJobFromJobConfig(jc, execution.JobTypeScheduled, now)
	vz.Assert(err == nil && rj != nil, "C17/L1/accepted-jobconfig-instantiates")
}

type verifNeverExpr struct{}

func (verifNeverExpr) Next(t time.Time) time.Time { return t.Add(time.Hour) }

func verifInstallScheduleStubs(okCron, okTz map[string]bool) {
	locs := map[string]*time.Location{}
	tzutils.VerifHook_ParseTimezone = func(val string) (*time.Location, error) {
		if val == "" || val == "Local" {
			val = "UTC"
		}
		if !okTz[val] {
			return nil, fakes.ErrorOfKind(5, val)
		}
		if l, ok := locs[val]; ok {
			return l, nil
		}
		l := time.FixedZone(val, 0)
		locs[val] = l
		return l, nil
	}
	cron.VerifParseHook = func(p *cron.Parser, line, hashID string) (cron.Expression, error) {
		if !okCron[line] {
			return nil, fakes.ErrorOfKind(5, line)
		}
		return verifNeverExpr{}, nil
	}
}
