//go:build verif

package validation

var verifHarnesses = map[string]func(){
	"VerifH_C14_L1_expansion": VerifH_C14_L1_expansion,
	"VerifH_C17_L2_immutable": VerifH_C17_L2_immutable,
	"VerifH_C17_L1_schedule":  VerifH_C17_L1_schedule,
	"VerifH_C14_L2_names":     VerifH_C14_L2_names,
	"VerifH_C14_L2_longNames": VerifH_C14_L2_longNames,
	"VerifH_C14_L3_hashes":    VerifH_C14_L3_hashes,
	"VerifH_C14_L1_wideMatrix": VerifH_C14_L1_wideMatrix,
}
