//go:build verif

package job

import jobtasks "github.com/furiko-io/furiko/pkg/execution/tasks"

// VerifSequentialTasks replaces ConcurrentTasks' goroutines (not executed by
// the engine) by a sequential call of fn on every task, returning the first error.
func VerifSequentialTasks(tasks []jobtasks.Task, fn func(task jobtasks.Task) error) error {
	var first error
	for _, t := range tasks {
		if err := fn(t); err != nil && first == nil {
			first = err
		}
	}
	return first
}
