//go:build verif

package cronschedule

import (
	"time"

	metav1 "k8s.io/apimachinery/pkg/apis/meta/v1"

	configv1alpha1 "github.com/furiko-io/furiko/apis/config/v1alpha1"
	execution "github.com/furiko-io/furiko/apis/execution/v1alpha1"
	vz "github.com/furiko-io/furiko/pkg/zzverif"
)

// symbolic persisted JobConfig state relevant to the reference time
type c04State struct {
	jc            *execution.JobConfig
	cfg           *configv1alpha1.CronExecutionConfig
	now           time.Time
	hasLS         bool
	ls            time.Time
	hasLU         bool
	lu            time.Time
	hasNBF        bool
	nbf           time.Time
	thresholdSecs int64
}

func c04Draw() *c04State {
	s := &c04State{}
	s.now = vz.Instant("now")
	s.jc = &execution.JobConfig{}
	s.jc.Namespace = "ns"
	s.jc.Name = "jc"
	if vz.Bool("hasLastScheduled") {
		if vz.Bool("lastScheduledZero") {
			s.jc.Status.LastScheduled = &metav1.Time{}
		} else {
			s.hasLS = true
			s.ls = vz.Instant("lastScheduled")
			t := metav1.NewTime(s.ls)
			s.jc.Status.LastScheduled = &t
		}
	}
	if vz.Bool("hasSchedule") {
		s.jc.Spec.Schedule = &execution.ScheduleSpec{}
		if vz.Bool("hasLastUpdated") {
			s.hasLU = true
			s.lu = vz.Instant("lastUpdated")
			t := metav1.NewTime(s.lu)
			s.jc.Spec.Schedule.LastUpdated = &t
		}
		if vz.Bool("hasConstraints") {
			s.jc.Spec.Schedule.Constraints = &execution.ScheduleContraints{}
			if vz.Bool("hasNotBefore") {
				s.hasNBF = true
				s.nbf = vz.Instant("notBefore")
				t := metav1.NewTime(s.nbf)
				s.jc.Spec.Schedule.Constraints.NotBefore = &t
			}
		}
	}
	th := vz.IntRange("threshold", -1, 1<<31)
	s.cfg = &configv1alpha1.CronExecutionConfig{MaxDowntimeThresholdSeconds: th}
	s.thresholdSecs = th
	if th <= 0 {
		s.thresholdSecs = 300
	}
	return s
}

// admitted restates the property: a whole-second instant m is requested at
// start-up iff it is later than the latest of (last recorded schedule time,
// start time minus the tolerated downtime), later than the last schedule
// change, and not before notBefore. A never-scheduled JobConfig starts from now.
func (s *c04State) admitted(m time.Time) bool {
	var base time.Time
	if s.hasLS {
		base = s.ls
		cut := s.now.Add(-time.Duration(s.thresholdSecs) * time.Second)
		if cut.After(base) {
			base = cut
		}
	} else {
		base = s.now
	}
	if s.hasLU && s.lu.After(base) {
		base = s.lu
	}
	if !m.After(base) {
		return false
	}
	if s.hasNBF && m.Before(s.nbf) {
		return false
	}
	return true
}

// VerifH_C04_L1_referenceTime: for every persisted state and clock value the
// reference time computed at start-up admits exactly the instants the
// statement says are still due.
func VerifH_C04_L1_referenceTime() {
	s := c04Draw()
	from := getInitialTimeForScheduling(s.jc, s.cfg, s.now, s.now)
	m := vz.InstantSec("m")
	got := m.After(from)
	want := s.admitted(m)
	vz.ObserveBool("got", got)
	vz.ObserveBool("want", want)
	vz.Observe("from.unix", from.Unix())
	vz.Assert(got == want, "C04/L1/admits")
	if s.hasLS {
		vz.Assert(!got || m.After(s.ls), "C04/L1/never-at-or-before-lastScheduled")
	} else {
		vz.Assert(!got || m.After(s.now), "C04/L1/never-scheduled-not-backscheduled")
	}
	if s.hasLS && s.now.Sub(s.ls) == time.Duration(s.thresholdSecs)*time.Second {
		vz.Cover("threshold-exactly-reached")
	}
	if s.hasNBF && m.Equal(s.nbf) && got {
		vz.Cover("match-exactly-at-notBefore")
	}
}
