//go:build verif

package cronschedule

var verifHarnesses = map[string]func(){
	"VerifH_C04_L1_referenceTime": VerifH_C04_L1_referenceTime,
}
