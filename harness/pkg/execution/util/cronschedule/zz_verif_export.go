//go:build verif

package cronschedule

import (
	"k8s.io/utils/clock"

	"github.com/furiko-io/furiko/pkg/utils/heap"
)

// VerifNewSchedule builds a Schedule directly from heap items (an arbitrary
// pre-state for inductive-step harnesses in other packages).
// The Schedule comes from the real constructor (empty list of JobConfigs), so
// whatever else New sets up is set up here too; only the heap content is replaced.
func VerifNewSchedule(items []*heap.Item, cfg Config, clk clock.Clock) *Schedule {
	s, err := New(nil, WithConfigLoader(cfg), WithClock(clk))
	if err != nil || s == nil {
		panic("cronschedule.New failed on an empty list")
	}
	s.jobConfigs = heap.New(items)
	return s
}

// VerifSearch exposes the heap priority of a key.
func (s *Schedule) VerifSearch(name string) (int, bool) { return s.jobConfigs.Search(name) }
func (s *Schedule) VerifLen() int                        { return s.jobConfigs.Len() }
