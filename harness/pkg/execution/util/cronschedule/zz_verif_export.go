//go:build verif

package cronschedule

import (
	"k8s.io/utils/clock"

	"github.com/furiko-io/furiko/pkg/utils/heap"
)

// VerifNewSchedule builds a Schedule directly from heap items (an arbitrary
// pre-state for inductive-step harnesses in other packages).
func VerifNewSchedule(items []*heap.Item, cfg Config, clk clock.Clock) *Schedule {
	return &Schedule{jobConfigs: heap.New(items), cfg: cfg, clock: clk}
}

// VerifSearch exposes the heap priority of a key.
func (s *Schedule) VerifSearch(name string) (int, bool) { return s.jobConfigs.Search(name) }
func (s *Schedule) VerifLen() int                        { return s.jobConfigs.Len() }
