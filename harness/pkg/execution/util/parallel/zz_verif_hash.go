//go:build verif

package parallel

import (
	"sort"
	"strconv"
	"strings"

	"k8s.io/utils/pointer"

	execution "github.com/furiko-io/furiko/apis/execution/v1alpha1"
	vz "github.com/furiko-io/furiko/pkg/zzverif"
)

// HashIndex is reflection (hashstructure) + base32 and is not symbolically
// encoded. The overlay rewriter turns it into a trampoline; under the engine the
// stub below answers from a table regenerated on every run by executing the
// real HashIndex natively (TestVerifHostTable); natively it calls the real one.

// VerifEncodeIndex renders a ParallelIndex as a table key.
func VerifEncodeIndex(index execution.ParallelIndex) string {
	switch {
	case index.IndexNumber != nil:
		return "n:" + strconv.FormatInt(*index.IndexNumber, 10)
	case index.IndexKey != "":
		return "k:" + index.IndexKey
	case len(index.MatrixValues) > 0:
		keys := make([]string, 0, len(index.MatrixValues))
		for k := range index.MatrixValues {
			keys = append(keys, k)
		}
		sort.Strings(keys)
		s := "m:"
		for i, k := range keys {
			if i > 0 {
				s += ","
			}
			s += k + "=" + index.MatrixValues[k]
		}
		return s
	}
	return "e:"
}

func verifDecodeIndex(arg string) execution.ParallelIndex {
	switch {
	case strings.HasPrefix(arg, "n:"):
		n, _ := strconv.ParseInt(arg[2:], 10, 64)
		return execution.ParallelIndex{IndexNumber: pointer.Int64(n)}
	case strings.HasPrefix(arg, "k:"):
		return execution.ParallelIndex{IndexKey: arg[2:]}
	case strings.HasPrefix(arg, "m:"):
		m := map[string]string{}
		for _, kv := range strings.Split(arg[2:], ",") {
			if i := strings.Index(kv, "="); i >= 0 {
				m[kv[:i]] = kv[i+1:]
			}
		}
		return execution.ParallelIndex{MatrixValues: m}
	}
	return execution.ParallelIndex{}
}

// VerifInstallHashStub routes HashIndex through the host table / real function.
func VerifInstallHashStub() {
	vz.HostFuncs["HashIndex"] = func(arg string) string {
		h, err := verifOrig_HashIndex(verifDecodeIndex(arg))
		if err != nil {
			return "!err"
		}
		return h
	}
	VerifHook_HashIndex = func(index execution.ParallelIndex) (string, error) {
		return vz.HostCall("HashIndex", VerifEncodeIndex(index)), nil
	}
}

// VerifRealHashIndex calls the unhooked implementation.
func VerifRealHashIndex(index execution.ParallelIndex) (string, error) { return verifOrig_HashIndex(index) }
