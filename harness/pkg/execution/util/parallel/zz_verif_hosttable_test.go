//go:build verif

package parallel

import (
	"fmt"
	"os"
	"strconv"
	"testing"
)

// TestVerifHostTable prints the real HashIndex of every index in the universe
// the harnesses use; the engine loads this table on every run.
func TestVerifHostTable(t *testing.T) {
	if os.Getenv("VERIF_HOSTTABLE") == "" {
		return
	}
	var args []string
	n := 160
	if os.Getenv("VERIF_TIER") == "thorough" {
		n = 240
	}
	for i := 0; i < n; i++ {
		args = append(args, "n:"+strconv.Itoa(i))
	}
	keys := []string{"a", "b", "c", "ab", "a-b", "x", "y"}
	for _, k := range keys {
		args = append(args, "k:"+k)
	}
	vals := []string{"x", "y", "p", "q", "r", "x b:y", "y b:x"}
	for _, v1 := range vals {
		args = append(args, "m:a="+v1)
		for _, v2 := range vals {
			args = append(args, "m:a="+v1+",b="+v2)
			for _, v3 := range vals {
				args = append(args, "m:a="+v1+",b="+v2+",c="+v3)
			}
		}
	}
	// wide matrices: 4 and 5 keys with values {x, y}
	xy := []string{"x", "y"}
	for _, a := range xy {
		for _, b := range xy {
			for _, c := range xy {
				for _, d := range xy {
					args = append(args, "m:a="+a+",b="+b+",c="+c+",d="+d)
					for _, e := range xy {
						args = append(args, "m:a="+a+",b="+b+",c="+c+",d="+d+",e="+e)
					}
				}
			}
		}
	}
	args = append(args, "e:")
	for _, a := range args {
		h, err := verifOrig_HashIndex(verifDecodeIndex(a))
		if err != nil {
			h = "!err"
		}
		fmt.Printf("VERIF-HOSTTABLE HashIndex\t%s\t%s\n", a, h)
	}
}
