//go:build verif

package cron

// VerifParseHook replaces the cronexpr parser (a third-party string parser and
// calendar arithmetic, outside the encodable fragment) by a contract stub.
// util.go's call `parser.Parse(...)` is redirected to verifParse by the overlay
// rewriter; with the hook unset the real parser runs.
var VerifParseHook func(p *Parser, line, hashID string) (Expression, error)

func verifParse(p *Parser, line, hashID string) (Expression, error) {
	if VerifParseHook != nil {
		return VerifParseHook(p, line, hashID)
	}
	e, err := p.Parse(line, hashID)
	if err != nil {
		return nil, err
	}
	return e, nil
}

// VerifParse is the exported trampoline used by call sites outside this package
// (validation) that are redirected by the overlay rewriter.
func VerifParse(p *Parser, line, hashID string) (Expression, error) { return verifParse(p, line, hashID) }
