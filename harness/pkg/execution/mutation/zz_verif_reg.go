//go:build verif

package mutation

var verifHarnesses = map[string]func(){
	"VerifH_C16_job":         VerifH_C16_job,
	"VerifH_C16_lastUpdated": VerifH_C16_lastUpdated,
}
