//go:build verif

package mutation

import (
	"reflect"
	"time"

	admissionv1 "k8s.io/api/admission/v1"
	corev1 "k8s.io/api/core/v1"
	metav1 "k8s.io/apimachinery/pkg/apis/meta/v1"
	"k8s.io/utils/pointer"

	configv1alpha1 "github.com/furiko-io/furiko/apis/config/v1alpha1"
	executiongroup "github.com/furiko-io/furiko/apis/execution"
	execution "github.com/furiko-io/furiko/apis/execution/v1alpha1"
	"github.com/furiko-io/furiko/pkg/execution/util/jobconfig"
	"github.com/furiko-io/furiko/pkg/utils/ktime"
	"github.com/furiko-io/furiko/pkg/utils/meta"
	vz "github.com/furiko-io/furiko/pkg/zzverif"
	"github.com/furiko-io/furiko/pkg/zzverif/fakes"
)

func verifCtx(cfg *configv1alpha1.JobExecutionConfig, jcs ...*execution.JobConfig) *fakes.Context {
	return &fakes.Context{
		Cfg: &fakes.Configs{JobCfg: cfg},
		Inf: &fakes.Informers{JobConfigInf: &fakes.JobConfigInformer{Inf: &fakes.SharedInformer{}, L: &fakes.JobConfigLister{Items: jcs}}},
	}
}

// VerifH_C16_job: defaulting of a created Job is idempotent at the typed level,
// defaults are applied exactly when the field is absent, and a Job created with
// configName is expanded from the JobConfig with the submitter's values winning.
func VerifH_C16_job() {
	now := vz.InstantNear("now")
	vz.NowFn = func() time.Time { return now }
	Clock = fakes.Clock{}
	ktime.Clock = fakes.Clock{}
	cfg := &configv1alpha1.JobExecutionConfig{}
	if vz.Bool("cfg.hasTTL") {
		cfg.DefaultTTLSecondsAfterFinished = pointer.Int64(vz.IntRange("cfg.ttl", 0, 1<<20))
	}
	if vz.Bool("cfg.hasPending") {
		cfg.DefaultPendingTimeoutSeconds = pointer.Int64(vz.IntRange("cfg.pending", 0, 1<<20))
	}
	// the JobConfig a configName may refer to
	jc := &execution.JobConfig{}
	jc.Namespace = "ns"
	jc.Name = "jc"
	jc.UID = "jc-uid"
	jc.Spec.Concurrency.Policy = execution.ConcurrencyPolicyForbid
	jc.Spec.Template.Labels = map[string]string{"team": "jc", "shared": "fromjc"}
	jc.Spec.Template.Annotations = map[string]string{"note": "jc"}
	jc.Spec.Template.Spec = execution.JobTemplate{
		TaskTemplate: execution.TaskTemplate{Pod: &execution.PodTemplateSpec{Spec: corev1.PodSpec{Containers: []corev1.Container{{Name: "c", Image: "fromjc"}}}}},
		MaxAttempts:  pointer.Int64(3),
	}
	patcher := NewJobPatcher(verifCtx(cfg, jc))

	rj := &execution.Job{}
	rj.Namespace = "ns"
	rj.Name = "job"
	useConfig := vz.Bool("useConfigName")
	if useConfig {
		rj.Spec.ConfigName = "jc"
	}
	hadType := vz.Bool("hasType")
	if hadType {
		rj.Spec.Type = execution.JobTypeScheduled
	}
	hadTTL := vz.Bool("hasTTL")
	if hadTTL {
		rj.Spec.TTLSecondsAfterFinished = pointer.Int64(vz.IntRange("ttl", 0, 1<<20))
	}
	hadTemplate := vz.Bool("hasTemplate")
	hadMax, hadPending, hadRestart, hadStrategy := false, false, false, false
	if hadTemplate {
		rj.Spec.Template = &execution.JobTemplate{}
		if vz.Bool("hasMaxAttempts") {
			hadMax = true
			rj.Spec.Template.MaxAttempts = pointer.Int64(vz.IntRange("maxAttempts", 1, 10))
		}
		if vz.Bool("hasPending") {
			hadPending = true
			rj.Spec.Template.TaskPendingTimeoutSeconds = pointer.Int64(vz.IntRange("pending", 0, 1<<20))
		}
		if vz.Bool("hasPod") {
			rj.Spec.Template.TaskTemplate.Pod = &execution.PodTemplateSpec{}
			if vz.Bool("hasRestartPolicy") {
				hadRestart = true
				rj.Spec.Template.TaskTemplate.Pod.Spec.RestartPolicy = corev1.RestartPolicyOnFailure
			}
		}
		if vz.Bool("hasParallelism") {
			rj.Spec.Template.Parallelism = &execution.ParallelismSpec{WithCount: pointer.Int64(2)}
			if vz.Bool("hasStrategy") {
				hadStrategy = true
				rj.Spec.Template.Parallelism.CompletionStrategy = execution.AnySuccessful
			}
		}
	}
	hadPolicy := false
	if vz.Bool("hasStartPolicy") {
		rj.Spec.StartPolicy = &execution.StartPolicySpec{}
		if vz.Bool("hasConcurrencyPolicy") {
			hadPolicy = true
			rj.Spec.StartPolicy.ConcurrencyPolicy = execution.ConcurrencyPolicyEnqueue
		}
	}
	if vz.Bool("hasLabels") {
		rj.Labels = map[string]string{"shared": "mine", jobconfig.LabelKeyJobConfigUID: "spoofed"}
		rj.Annotations = map[string]string{"note": "mine"}
	}
	switch vz.Choice("finalizers", 4) {
	case 1:
		rj.Finalizers = []string{executiongroup.DeleteDependentsFinalizer}
	case 2:
		// some other controller's finalizer is already on the submitted object
		rj.Finalizers = []string{"example.com/other"}
		vz.Cover("foreign-finalizer")
	case 3:
		rj.Finalizers = []string{"example.com/other", executiongroup.DeleteDependentsFinalizer}
	}
	hadForeign := len(rj.Finalizers) > 0 && rj.Finalizers[0] == "example.com/other"
	if vz.Bool("hasSubstitutions") {
		rj.Spec.Substitutions = map[string]string{"jobconfig.name": "explicit", "option.a": "1"}
		if vz.Bool("emptyExplicitSubstitution") {
			// an explicit empty value is still the submitter's value
			rj.Spec.Substitutions["jobconfig.namespace"] = ""
		}
	}
	in := rj.DeepCopy()

	// the real create patcher, then the same object submitted again
	res := patcher.Patch(admissionv1.Create, nil, rj)
	vz.Assert(len(res.Errors) == 0, "C16/defaulting-succeeds")
	once := rj.DeepCopy()
	res2 := patcher.Patch(admissionv1.Create, nil, rj)
	vz.Assert(len(res2.Errors) == 0, "C16/defaulting-succeeds-again")
	vz.Assert(reflect.DeepEqual(once, rj), "C16/idempotent")

	// defaults exactly when absent
	nfin := 0
	for _, f := range once.Finalizers {
		if f == executiongroup.DeleteDependentsFinalizer {
			nfin++
		}
	}
	vz.Assert(nfin == 1, "C16/finalizer-present-exactly-once")
	// C13: the finalizer is what keeps a Job in the API until its tasks are gone - every
	// admitted Job carries it, whatever finalizers it was submitted with
	vz.Assert(nfin >= 1, "C13/admitted-job-carries-the-delete-dependents-finalizer")
	if hadForeign {
		vz.Assert(meta.ContainsFinalizer(once.Finalizers, "example.com/other"), "C16/submitted-finalizers-kept")
	}
	if hadType {
		vz.Assert(once.Spec.Type == execution.JobTypeScheduled, "C16/type-kept")
	} else {
		vz.Assert(once.Spec.Type == execution.JobTypeAdhoc, "C16/type-defaulted")
	}
	if hadTTL {
		vz.Assert(*once.Spec.TTLSecondsAfterFinished == *in.Spec.TTLSecondsAfterFinished, "C16/ttl-kept")
	} else {
		vz.Assert(reflect.DeepEqual(once.Spec.TTLSecondsAfterFinished, cfg.DefaultTTLSecondsAfterFinished), "C16/ttl-defaulted")
	}
	vz.Assert(once.Spec.Template != nil && once.Spec.Template.MaxAttempts != nil, "C16/maxAttempts-set")
	if !useConfig {
		if hadMax {
			vz.Observe("once.max", *once.Spec.Template.MaxAttempts)
			vz.Observe("in.max", *in.Spec.Template.MaxAttempts)
			vz.Assert(*once.Spec.Template.MaxAttempts == *in.Spec.Template.MaxAttempts, "C16/maxAttempts-kept")
		} else {
			vz.Assert(*once.Spec.Template.MaxAttempts == 1, "C16/maxAttempts-defaulted")
		}
		if hadPending {
			vz.Assert(*once.Spec.Template.TaskPendingTimeoutSeconds == *in.Spec.Template.TaskPendingTimeoutSeconds, "C16/pending-kept")
		} else {
			vz.Assert(reflect.DeepEqual(once.Spec.Template.TaskPendingTimeoutSeconds, cfg.DefaultPendingTimeoutSeconds), "C16/pending-defaulted")
		}
		if pod := once.Spec.Template.TaskTemplate.Pod; pod != nil {
			if hadRestart {
				vz.Assert(pod.Spec.RestartPolicy == corev1.RestartPolicyOnFailure, "C16/restartPolicy-kept")
			} else {
				vz.Assert(pod.Spec.RestartPolicy == corev1.RestartPolicyNever, "C16/restartPolicy-defaulted")
			}
		}
		if par := once.Spec.Template.Parallelism; par != nil {
			if hadStrategy {
				vz.Assert(par.CompletionStrategy == execution.AnySuccessful, "C16/strategy-kept")
			} else {
				vz.Assert(par.CompletionStrategy == execution.AllSuccessful, "C16/strategy-defaulted")
			}
		}
		vz.Cover("plain-job")
	} else {
		// configName expansion
		vz.Cover("configName")
		vz.Assert(once.Spec.ConfigName == "", "C16/configName-cleared")
		vz.Assert(once.Spec.Template.TaskTemplate.Pod != nil && once.Spec.Template.TaskTemplate.Pod.Spec.Containers[0].Image == "fromjc", "C16/template-from-jobconfig")
		vz.Assert(*once.Spec.Template.MaxAttempts == 3, "C16/template-from-jobconfig")
		ref := metav1.GetControllerOf(once)
		vz.Assert(ref != nil && ref.UID == jc.UID && ref.Kind == execution.KindJobConfig && len(once.OwnerReferences) == 1, "C16/owner-reference-to-jobconfig")
		vz.Assert(once.Labels[jobconfig.LabelKeyJobConfigUID] == string(jc.UID), "C16/uid-label-of-jobconfig")
		vz.Assert(once.Labels["team"] == "jc", "C16/jobconfig-labels-inherited")
		if in.Labels != nil {
			vz.Assert(once.Labels["shared"] == "mine" && once.Annotations["note"] == "mine", "C16/submitter-metadata-wins")
		} else {
			vz.Assert(once.Labels["shared"] == "fromjc" && once.Annotations["note"] == "jc", "C16/jobconfig-metadata-inherited")
		}
		vz.Assert(once.Spec.StartPolicy != nil, "C16/startPolicy-set")
		if hadPolicy {
			vz.Assert(once.Spec.StartPolicy.ConcurrencyPolicy == execution.ConcurrencyPolicyEnqueue, "C16/submitter-policy-wins")
		} else {
			vz.Assert(once.Spec.StartPolicy.ConcurrencyPolicy == execution.ConcurrencyPolicyForbid, "C16/policy-inherited-when-absent")
		}
		if in.Spec.Substitutions != nil {
			vz.Assert(once.Spec.Substitutions["jobconfig.name"] == "explicit", "C16/explicit-substitution-wins")
			vz.Assert(once.Spec.Substitutions["option.a"] == "1", "C16/explicit-substitution-wins")
			if v, ok := in.Spec.Substitutions["jobconfig.namespace"]; ok {
				vz.Assert(once.Spec.Substitutions["jobconfig.namespace"] == v, "C16/explicit-substitution-wins")
				vz.Cover("explicit-empty-substitution")
			}
		} else {
			vz.Assert(once.Spec.Substitutions["jobconfig.name"] == "jc", "C16/jobconfig-context-added")
		}
		vz.Assert(once.Spec.Substitutions["jobconfig.uid"] == "jc-uid", "C16/jobconfig-context-added")
	}
	vz.Assert(meta.ContainsFinalizer(once.Finalizers, executiongroup.DeleteDependentsFinalizer), "C16/finalizer")
}

// VerifH_C16_lastUpdated: lastUpdated is stamped exactly when the schedule is
// created or changed (ignoring lastUpdated itself), never moved back past a future value.
func VerifH_C16_lastUpdated() {
	now := vz.InstantNear("now")
	vz.NowFn = func() time.Time { return now }
	Clock = fakes.Clock{}
	ktime.Clock = fakes.Clock{}
	patcher := NewJobConfigPatcher(verifCtx(&configv1alpha1.JobExecutionConfig{}))
	mk := func(tag string) *execution.JobConfig {
		jc := &execution.JobConfig{}
		jc.Namespace = "ns"
		jc.Name = "jc"
		if vz.Bool(tag + ".hasSchedule") {
			jc.Spec.Schedule = &execution.ScheduleSpec{Cron: &execution.CronSchedule{Expression: vz.Pick(tag+".expr", "x", "y")}, Disabled: vz.Bool(tag + ".disabled")}
			if vz.Bool(tag + ".hasLastUpdated") {
				t := metav1.NewTime(vz.InstantNear(tag + ".lastUpdated"))
				jc.Spec.Schedule.LastUpdated = &t
			}
			// the window is part of the schedule: changing it alone is a schedule change
			switch vz.Choice(tag+".window", 3) {
			case 1:
				t := metav1.NewTime(time.Unix(1<<33, 0))
				jc.Spec.Schedule.Constraints = &execution.ScheduleContraints{NotAfter: &t}
			case 2:
				t := metav1.NewTime(time.Unix(1<<34, 0))
				jc.Spec.Schedule.Constraints = &execution.ScheduleContraints{NotAfter: &t}
			}
		}
		return jc
	}
	window := func(jc *execution.JobConfig) int64 {
		if jc.Spec.Schedule == nil || jc.Spec.Schedule.Constraints == nil || jc.Spec.Schedule.Constraints.NotAfter == nil {
			return 0
		}
		return jc.Spec.Schedule.Constraints.NotAfter.Unix()
	}
	if vz.Bool("isCreate") {
		jc := mk("new")
		var before *metav1.Time
		if jc.Spec.Schedule != nil {
			before = jc.Spec.Schedule.LastUpdated
		}
		res := patcher.Patch(admissionv1.Create, nil, jc)
		vz.Assert(len(res.Errors) == 0, "C16/jobconfig-defaulting-succeeds")
		if jc.Spec.Schedule == nil {
			vz.Cover("create-without-schedule")
			return
		}
		lu := jc.Spec.Schedule.LastUpdated
		vz.Assert(lu != nil, "C16/lastUpdated-stamped-on-create")
		if before != nil && before.After(now) {
			vz.Assert(lu.Equal(before), "C16/future-lastUpdated-not-moved-back")
		} else {
			vz.Assert(lu.Time.Equal(now), "C16/lastUpdated-stamped-on-create")
			vz.Cover("stamped-on-create")
		}
		return
	}
	old := mk("old")
	nw := mk("new")
	var before *metav1.Time
	if nw.Spec.Schedule != nil {
		before = nw.Spec.Schedule.LastUpdated
	}
	res := patcher.Patch(admissionv1.Update, old, nw)
	vz.Assert(len(res.Errors) == 0, "C16/jobconfig-defaulting-succeeds")
	if nw.Spec.Schedule == nil {
		return
	}
	changed := old.Spec.Schedule == nil ||
		old.Spec.Schedule.Cron.Expression != nw.Spec.Schedule.Cron.Expression ||
		old.Spec.Schedule.Disabled != nw.Spec.Schedule.Disabled ||
		window(old) != window(nw)
	if old.Spec.Schedule != nil && window(old) != window(nw) && old.Spec.Schedule.Cron.Expression == nw.Spec.Schedule.Cron.Expression && old.Spec.Schedule.Disabled == nw.Spec.Schedule.Disabled {
		vz.Cover("only-the-window-changed")
	}
	lu := nw.Spec.Schedule.LastUpdated
	if changed && !(before != nil && before.After(now)) {
		vz.Assert(lu != nil && lu.Time.Equal(now), "C16/lastUpdated-stamped-on-schedule-change")
		vz.Cover("stamped-on-change")
	} else {
		vz.Assert((lu == nil) == (before == nil) && (lu == nil || lu.Equal(before)), "C16/lastUpdated-untouched-otherwise")
		vz.Cover("not-stamped")
	}
}
