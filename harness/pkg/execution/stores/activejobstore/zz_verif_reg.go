//go:build verif

package activejobstore

var verifHarnesses = map[string]func(){
	"VerifH_C05_L1_eventStep": VerifH_C05_L1_eventStep,
	"VerifH_C05_L2_recover":   VerifH_C05_L2_recover,
}
