//go:build verif

package activejobstore

import (
	"context"
	"time"

	metav1 "k8s.io/apimachinery/pkg/apis/meta/v1"
	"k8s.io/client-go/tools/cache"

	execution "github.com/furiko-io/furiko/apis/execution/v1alpha1"
	"github.com/furiko-io/furiko/pkg/execution/util/jobconfig"
	"github.com/furiko-io/furiko/pkg/runtime/controllerutil"
	utilatomic "github.com/furiko-io/furiko/pkg/utils/atomic"
	vz "github.com/furiko-io/furiko/pkg/zzverif"
	"github.com/furiko-io/furiko/pkg/zzverif/fakes"
)

// VerifNewStore returns a store without informers (for harnesses elsewhere).
func VerifNewStore() *Store { return &Store{counter: utilatomic.NewCounter()} }

// VerifSetCount puts the counter of a JobConfig UID into an arbitrary state.
func (s *Store) VerifSetCount(uid string, v int64) { s.counter.VerifSet(uid, v) }
func (s *Store) VerifCount(uid string) int64       { return s.counter.Get(uid) }

var verifPhases = []execution.JobPhase{
	"", execution.JobQueued, execution.JobStarting, execution.JobPending, execution.JobRunning,
	execution.JobRetryBackoff, execution.JobRetrying, execution.JobTerminating, execution.JobKilling,
	execution.JobSucceeded, execution.JobFailed, execution.JobKilled, execution.JobAdmissionError, execution.JobFinishedUnknown,
}

func verifIsTerminalPhase(i int) bool { return i >= 9 }

type verifJobView struct {
	job     *execution.Job
	started bool
	term    bool
	label   bool
}

func (v verifJobView) active() bool { return v.started && !v.term }

// verifDrawJob draws the store-relevant view of a Job: started?, phase, label.
func verifDrawJob(name string, withLabel bool) verifJobView {
	v := verifJobView{job: &execution.Job{}, label: withLabel}
	v.job.Namespace = "ns"
	v.job.Name = name
	if withLabel {
		v.job.Labels = map[string]string{jobconfig.LabelKeyJobConfigUID: "uid1"}
	}
	if vz.Bool(name + ".hasStartTime") {
		if vz.Bool(name + ".startTimeZero") {
			v.job.Status.StartTime = &metav1.Time{}
		} else {
			t := metav1.NewTime(vz.Instant(name + ".startTime"))
			v.job.Status.StartTime = &t
			v.started = true
		}
	}
	ph := vz.Choice(name+".phase", len(verifPhases))
	v.job.Status.Phase = verifPhases[ph]
	v.term = verifIsTerminalPhase(ph)
	return v
}

// VerifH_C05_L1_eventStep: for every (old,new) view of a Job and every counter
// value, one informer event changes the JobConfig's counter by exactly the
// change in "this Job is counted": -1 when it stops being active, +1 when it
// becomes active other than by the start event (already counted by CheckAndAdd),
// 0 otherwise; delete of an active Job -1; unlabelled Jobs are ignored.
func VerifH_C05_L1_eventStep() {
	s := VerifNewStore()
	c0 := vz.IntRange("counter", 0, 1<<31)
	s.VerifSetCount("uid1", c0)
	withLabel := vz.Bool("hasLabel")
	if vz.Bool("isDelete") {
		v := verifDrawJob("old", withLabel)
		s.OnDelete(v.job)
		want := c0
		if withLabel && v.active() {
			want = c0 - 1
			vz.Cover("delete-active")
		}
		vz.Observe("after", s.VerifCount("uid1"))
		vz.Assert(s.VerifCount("uid1") == want, "C05/L1/delete-delta")
		return
	}
	o := verifDrawJob("old", withLabel)
	n := verifDrawJob("new", withLabel)
	// watch contract: a started Job stays started
	vz.Assume(!o.started || n.started)
	s.OnUpdate(o.job, n.job)
	want := c0
	switch {
	case !withLabel:
	case o.active() && !n.active():
		want = c0 - 1
		vz.Cover("became-inactive")
	case !o.active() && n.active() && !(!o.started && n.started):
		want = c0 + 1
		vz.Cover("became-active-not-by-start")
	case !o.started && n.started && n.active():
		vz.Cover("start-event-not-double-counted")
	}
	vz.Observe("after", s.VerifCount("uid1"))
	vz.Assert(s.VerifCount("uid1") == want, "C05/L1/update-delta")
	vz.Assert(s.VerifCount("other") == 0, "C05/L1/other-configs-untouched")
}

// VerifH_C05_L2_recover: at start-up the counter of each JobConfig equals the
// number of its Jobs that are active in the listed state.
func VerifH_C05_L2_recover() {
	controllerutil.VerifHook_WaitForNamedCacheSyncWithTimeout = func(ctx context.Context, name string, d time.Duration, syncs ...cache.InformerSynced) error {
		return nil
	}
	VerifHook_InformerWorker_Start = func(w *InformerWorker, stopCh <-chan struct{}) {}
	s := VerifNewStore()
	lister := &fakes.JobLister{}
	s.informer = &InformerWorker{jobInformer: &fakes.JobInformer{Inf: &fakes.SharedInformer{}, L: lister}, handler: s}
	n := 2
	if vz.Thorough() {
		n = 3
	}
	want := int64(0)
	names := []string{"j0", "j1", "j2"}
	for i := 0; i < n; i++ {
		v := verifDrawJob(names[i], vz.Bool("hasLabel"))
		lister.Items = append(lister.Items, v.job)
		if v.label && v.active() {
			want++
		}
	}
	err := s.Recover(context.Background())
	vz.Assert(err == nil, "C05/L2/recover-ok")
	vz.Observe("count", s.VerifCount("uid1"))
	vz.Assert(s.VerifCount("uid1") == want, "C05/L2/recover-count")
	if want == int64(n) {
		vz.Cover("all-active")
	}
	vz.Assert(s.Recover(context.Background()) != nil, "C05/L2/recover-only-once")
}
