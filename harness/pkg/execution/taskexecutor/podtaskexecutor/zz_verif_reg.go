//go:build verif

package podtaskexecutor

var verifHarnesses = map[string]func(){
	"VerifH_C18_L2_substitution": VerifH_C18_L2_substitution,
	"VerifH_C18_L2_nestedContext": VerifH_C18_L2_nestedContext,
	"VerifH_C10_podOutcome": VerifH_C10_podOutcome,
}
