//go:build verif

package podtaskexecutor

import (
	corev1 "k8s.io/api/core/v1"
	metav1 "k8s.io/apimachinery/pkg/apis/meta/v1"
	"k8s.io/utils/pointer"

	execution "github.com/furiko-io/furiko/apis/execution/v1alpha1"
	vz "github.com/furiko-io/furiko/pkg/zzverif"
)

func verifContainerState(tag string) (corev1.ContainerState, bool) {
	oom := false
	var st corev1.ContainerState
	switch vz.Choice(tag+".state", 4) {
	case 1:
		st.Running = &corev1.ContainerStateRunning{}
		if vz.Bool(tag + ".startedAtSet") {
			st.Running.StartedAt = metav1.NewTime(vz.InstantNear(tag + ".startedAt"))
		}
	case 2:
		st.Terminated = &corev1.ContainerStateTerminated{}
		switch vz.Choice(tag+".reason", 3) {
		case 0:
			st.Terminated.Reason = "OOMKilled"
			oom = true
		case 1:
			st.Terminated.Reason = "Error"
		}
		if vz.Bool(tag + ".finishedAtSet") {
			st.Terminated.FinishedAt = metav1.NewTime(vz.InstantNear(tag + ".finishedAt"))
		}
		if vz.Bool(tag + ".startedAtSet") {
			st.Terminated.StartedAt = metav1.NewTime(vz.InstantNear(tag + ".startedAt"))
		}
	case 3:
		st.Waiting = &corev1.ContainerStateWaiting{Reason: "ContainerCreating"}
	}
	return st, oom
}

// VerifH_C10_podOutcome: the outcome recorded for a task is what its Pod really
// did: Succeeded only for a Pod in phase Succeeded without an OOM kill, Failed
// for phase Failed or any OOM-killed container, finished exactly for terminal
// phases, and a finish time exactly for finished Pods.
func VerifH_C10_podOutcome() {
	pod := &corev1.Pod{}
	pod.Namespace = "ns"
	pod.Name = "job-x-0"
	pod.CreationTimestamp = metav1.NewTime(vz.InstantNear("created"))
	phases := []corev1.PodPhase{"", corev1.PodPending, corev1.PodRunning, corev1.PodSucceeded, corev1.PodFailed, corev1.PodUnknown}
	pi := vz.Choice("phase", len(phases))
	pod.Status.Phase = phases[pi]
	terminal := pi == 3 || pi == 4
	if vz.Bool("hasStartTime") {
		t := metav1.NewTime(vz.InstantNear("startTime"))
		pod.Status.StartTime = &t
	}
	if vz.Bool("deadlineExceeded") {
		// kubelet contract: the active deadline is measured from status.startTime, so a
		// Pod failed with DeadlineExceeded has a start time
		vz.Assume(pod.Status.StartTime != nil)
		pod.Status.Reason = "DeadlineExceeded"
		if vz.Bool("hasActiveDeadline") {
			pod.Spec.ActiveDeadlineSeconds = pointer.Int64(vz.IntRange("activeDeadline", 0, 1<<20))
		}
	}
	if vz.Bool("deleting") {
		t := metav1.NewTime(vz.InstantNear("deletionTimestamp"))
		pod.DeletionTimestamp = &t
	}
	oom := false
	n := vz.Choice("ncontainers", 3)
	for i := 0; i < n; i++ {
		tag := []string{"c0", "c1"}[i]
		cs := corev1.ContainerStatus{Name: tag}
		var o1, o2 bool
		if i == 1 && !vz.Thorough() {
			// quick tier: the second container is terminated (OOMKilled / Error / no reason) or running, without timestamps
			switch vz.Choice(tag+".lite", 4) {
			case 0:
				cs.State.Terminated = &corev1.ContainerStateTerminated{Reason: "OOMKilled"}
				o1 = true
			case 1:
				cs.State.Terminated = &corev1.ContainerStateTerminated{Reason: "Error"}
			case 2:
				cs.State.Terminated = &corev1.ContainerStateTerminated{}
			case 3:
				cs.State.Running = &corev1.ContainerStateRunning{}
			}
			oom = oom || o1
			pod.Status.ContainerStatuses = append(pod.Status.ContainerStatuses, cs)
			vz.Cover("two-containers")
			continue
		}
		cs.State, o1 = verifContainerState(tag)
		// (a last-termination state on the second container as well did not finish within 40 minutes)
		if i == 0 && vz.Bool(tag+".hasLastTermination") {
			cs.LastTerminationState, o2 = verifContainerState(tag + ".last")
			// LastTerminationState only counts when the current state is not terminated
			if cs.State.Terminated != nil {
				o2 = false
			}
			if cs.LastTerminationState.Terminated == nil {
				o2 = false
			}
		}
		oom = oom || o1 || o2
		pod.Status.ContainerStatuses = append(pod.Status.ContainerStatuses, cs)
	}
	task := NewPodTask(pod, nil)
	ref := task.GetTaskRef()
	res := ref.Status.Result
	if res == execution.TaskSucceeded {
		vz.Cover("succeeded")
		vz.Assert(pod.Status.Phase == corev1.PodSucceeded && !oom, "C10/pod/succeeded-only-if-pod-really-succeeded")
		vz.Assert(!ref.FinishTimestamp.IsZero(), "C10/pod/success-only-counted-for-finished-pods")
	}
	if pod.Status.Phase == corev1.PodFailed || oom {
		vz.Assert(res == execution.TaskFailed, "C10/pod/failed-or-oom-is-failed")
		vz.Cover("failed")
	}
	if pod.Status.Phase == corev1.PodSucceeded && !oom {
		vz.Assert(res == execution.TaskSucceeded, "C10/pod/succeeded-pod-is-succeeded")
	}
	vz.Assert((ref.Status.State == execution.TaskTerminated) == terminal, "C10/pod/terminated-iff-terminal-phase")
	vz.Assert(ref.FinishTimestamp.IsZero() == !terminal, "C10/pod/finish-time-iff-finished")
	if !terminal {
		vz.Assert(res != execution.TaskSucceeded, "C10/pod/no-success-before-the-end")
	}
	vz.Assert(ref.Name == pod.Name, "C10/pod/name")
}
