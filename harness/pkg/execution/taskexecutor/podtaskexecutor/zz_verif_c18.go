//go:build verif

package podtaskexecutor

import (
	"strings"

	v1 "k8s.io/api/core/v1"
	"k8s.io/utils/pointer"

	execution "github.com/furiko-io/furiko/apis/execution/v1alpha1"
	"github.com/furiko-io/furiko/pkg/execution/variablecontext"
	vz "github.com/furiko-io/furiko/pkg/zzverif"
)

var verifValues = []string{"", "x", "a b", "${option.b}", "$"}
var verifTemplates = []string{
	"run ${option.a}",
	"${option.a}-${option.b}",
	"${job.name}/${task.index_num}/${task.unknown}/${other.var} $HOME ${}",
	"${option.c}${jobconfig.name}",
}

// reference substitution written from the statement: each ${name} takes the
// value of the highest-priority source, unknown names of the reserved prefixes
// become empty, everything else is untouched.
func verifRefSubstitute(tmpl string, sources []map[string]string) string {
	out := ""
	for {
		i := strings.Index(tmpl, "${")
		if i < 0 {
			return out + tmpl
		}
		j := strings.Index(tmpl[i:], "}")
		if j < 0 {
			return out + tmpl
		}
		name := tmpl[i+2 : i+j]
		out += tmpl[:i]
		rest := tmpl[i+j+1:]
		found := false
		for _, src := range sources {
			if v, ok := src[name]; ok {
				out += v
				found = true
				break
			}
		}
		if !found {
			reserved := false
			for _, p := range []string{"job.", "task.", "jobconfig.", "option."} {
				if strings.HasPrefix(name, p) && len(name) > len(p) {
					reserved = true
				}
			}
			if !reserved {
				out += "${" + name + "}"
			}
		}
		tmpl = rest
	}
}

// VerifH_C18_L2_substitution: the task's pod spec after substitution is the same
// under every map iteration order, and (when no value itself contains a
// variable reference) equals the reference substitution by source priority.
func VerifH_C18_L2_substitution() {
	rj := &execution.Job{}
	rj.Namespace = "ns"
	rj.Name = "job"
	rj.UID = "u1"
	rj.Spec.Type = execution.JobTypeAdhoc
	subs := map[string]string{}
	nested := false
	for _, k := range []string{"option.a", "option.b", "job.name"} {
		if vz.Bool("has." + k) {
			v := verifValues[vz.Choice("val."+k, len(verifValues))]
			subs[k] = v
			if strings.Contains(v, "${") {
				nested = true
			}
		}
	}
	rj.Spec.Substitutions = subs
	tmpl := verifTemplates[vz.Choice("template", len(verifTemplates))]
	spec := v1.PodSpec{
		Containers:     []v1.Container{{Name: "c", Image: tmpl, Args: []string{"plain"}}},
		InitContainers: []v1.Container{{Name: "i", Image: "init ${task.index_num} ${task.name}"}},
	}
	task := variablecontext.TaskSpec{Name: "job-x-0", Namespace: "ns", RetryIndex: 0, ParallelIndex: execution.ParallelIndex{IndexNumber: pointer.Int64(3)}}
	vz.MapOrderNondetFor(subs)
	r1 := SubstitutePodSpec(rj, spec, task)
	for rep := 0; rep < vz.MapOrderReps(); rep++ {
		vz.MapOrderNondetFor(subs) // another iteration order for the second call
		r2 := SubstitutePodSpec(rj, spec, task)
		if nested {
			vz.Finding("F18-1")
		}
		vz.Assert(r1.Containers[0].Image == r2.Containers[0].Image, "C18/L2/same-result-every-time")
	}
	vz.Assert(spec.Containers[0].Image == tmpl, "C18/L2/template-not-modified-in-place")
	vz.Assert(spec.InitContainers[0].Image == "init ${task.index_num} ${task.name}", "C18/L2/template-not-modified-in-place")
	vz.Assert(r1.InitContainers[0].Image == "init 3 job-x-0", "C18/L2/init-containers-substituted")
	// a second task created from the same Job object (another index) gets its own values
	task2 := variablecontext.TaskSpec{Name: "job-y-0", Namespace: "ns", RetryIndex: 0, ParallelIndex: execution.ParallelIndex{IndexNumber: pointer.Int64(4)}}
	r3 := SubstitutePodSpec(rj, spec, task2)
	vz.Assert(r3.InitContainers[0].Image == "init 4 job-y-0", "C14/L1/each-task-gets-its-own-index-values")
	vz.Assert(r3.InitContainers[0].Image == "init 4 job-y-0", "C18/L2/each-task-gets-its-own-values")
	vz.Assert(r1.Containers[0].Args[0] == "plain", "C18/L2/other-text-untouched")
	if !nested {
		want := verifRefSubstitute(tmpl, []map[string]string{subs, variablecontext.ContextProvider.MakeVariablesFromJob(rj), variablecontext.ContextProvider.MakeVariablesFromTask(task)})
		vz.ObserveStr("got", r1.Containers[0].Image)
		vz.ObserveStr("want", want)
		vz.Assert(r1.Containers[0].Image == want, "C18/L2/highest-priority-source-wins")
		vz.Cover("reference-compared")
	} else {
		vz.Cover("nested-value")
	}
}
