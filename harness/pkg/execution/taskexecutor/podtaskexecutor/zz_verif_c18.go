//go:build verif

package podtaskexecutor

import (
	"strings"

	v1 "k8s.io/api/core/v1"
	"k8s.io/utils/pointer"

	execution "github.com/furiko-io/furiko/apis/execution/v1alpha1"
	"github.com/furiko-io/furiko/pkg/execution/variablecontext"
	vz "github.com/furiko-io/furiko/pkg/zzverif"
)

var verifValues = []string{"", "x", "a b", "${option.b}", "$"}
var verifTemplates = []string{
	"run ${option.a}",
	"${option.a}-${option.b}",
	"${job.name}/${task.index_num}/${task.unknown}/${other.var} $HOME ${}",
	"${option.c}${jobconfig.name}",
}

// reference substitution written from the statement: each ${name} takes the
// value of the highest-priority source, unknown names of the reserved prefixes
// become empty, everything else is untouched.
func verifRefSubstitute(tmpl string, sources []map[string]string) string {
	out := ""
	for {
		i := strings.Index(tmpl, "${")
		if i < 0 {
			return out + tmpl
		}
		j := strings.Index(tmpl[i:], "}")
		if j < 0 {
			return out + tmpl
		}
		name := tmpl[i+2 : i+j]
		out += tmpl[:i]
		rest := tmpl[i+j+1:]
		found := false
		for _, src := range sources {
			if v, ok := src[name]; ok {
				out += v
				found = true
				break
			}
		}
		if !found {
			reserved := false
			for _, p := range []string{"job.", "task.", "jobconfig.", "option."} {
				if strings.HasPrefix(name, p) && len(name) > len(p) {
					reserved = true
				}
			}
			if !reserved {
				out += "${" + name + "}"
			}
		}
		tmpl = rest
	}
}

// VerifH_C18_L2_substitution: the task's pod spec after substitution is the same
// under every map iteration order, and (when no value itself contains a
// variable reference) equals the reference substitution by source priority.
func VerifH_C18_L2_substitution() {
	rj := &execution.Job{}
	rj.Namespace = "ns"
	rj.Name = "job"
	rj.UID = "u1"
	rj.Spec.Type = execution.JobTypeAdhoc
	subs := map[string]string{}
	nested := false
	for _, k := range []string{"option.a", "option.b", "job.name"} {
		if vz.Bool("has." + k) {
			v := verifValues[vz.Choice("val."+k, len(verifValues))]
			subs[k] = v
			if strings.Contains(v, "${") {
				nested = true
			}
		}
	}
	rj.Spec.Substitutions = subs
	tmpl := verifTemplates[vz.Choice("template", len(verifTemplates))]
	spec := v1.PodSpec{
		Containers:     []v1.Container{{Name: "c", Image: tmpl, Args: []string{"plain"}}},
		InitContainers: []v1.Container{{Name: "i", Image: "init ${task.index_num} ${task.name}"}},
	}
	task := variablecontext.TaskSpec{Name: "job-x-0", Namespace: "ns", RetryIndex: 0, ParallelIndex: execution.ParallelIndex{IndexNumber: pointer.Int64(3)}}
	vz.MapOrderNondetFor(subs)
	r1 := SubstitutePodSpec(rj, spec, task)
	for rep := 0; rep < vz.MapOrderReps(); rep++ {
		vz.MapOrderNondetFor(subs) // another iteration order for the second call
		r2 := SubstitutePodSpec(rj, spec, task)
		if nested {
			vz.Finding("F18-1")
		}
		vz.Assert(r1.Containers[0].Image == r2.Containers[0].Image, "C18/L2/same-result-every-time")
	}
	vz.Assert(spec.Containers[0].Image == tmpl, "C18/L2/template-not-modified-in-place")
	vz.Assert(spec.InitContainers[0].Image == "init ${task.index_num} ${task.name}", "C18/L2/template-not-modified-in-place")
	vz.Assert(r1.InitContainers[0].Image == "init 3 job-x-0", "C18/L2/init-containers-substituted")
	// a second task created from the same Job object (another index) gets its own values
	task2 := variablecontext.TaskSpec{Name: "job-y-0", Namespace: "ns", RetryIndex: 0, ParallelIndex: execution.ParallelIndex{IndexNumber: pointer.Int64(4)}}
	r3 := SubstitutePodSpec(rj, spec, task2)
	vz.Assert(r3.InitContainers[0].Image == "init 4 job-y-0", "C14/L1/each-task-gets-its-own-index-values")
	vz.Assert(r3.InitContainers[0].Image == "init 4 job-y-0", "C18/L2/each-task-gets-its-own-values")
	vz.Assert(r1.Containers[0].Args[0] == "plain", "C18/L2/other-text-untouched")
	if !nested {
		want := verifRefSubstitute(tmpl, []map[string]string{subs, variablecontext.ContextProvider.MakeVariablesFromJob(rj), variablecontext.ContextProvider.MakeVariablesFromTask(task)})
		vz.ObserveStr("got", r1.Containers[0].Image)
		vz.ObserveStr("want", want)
		vz.Assert(r1.Containers[0].Image == want, "C18/L2/highest-priority-source-wins")
		vz.Cover("reference-compared")
	} else {
		vz.Cover("nested-value")
	}
}

// VerifH_C18_L2_nestedContext: a value (explicit substitution, hence also an
// option value or default, which reach the Job as substitutions) whose text
// itself mentions a context variable. The statement does not say whether such
// a mention is expanded, so no particular result is demanded - only that the
// treatment is "ordered by source", not by accident of the variable's name: a
// mention of a job-context variable and a mention of a task-context variable
// (both lower-priority sources than the value that carries them) are treated
// alike - both expanded, both left as text, or both emptied.
func VerifH_C18_L2_nestedContext() {
	jobVars := []string{"job.name", "job.namespace", "job.type"}
	taskVars := []string{"task.name", "task.index_num", "task.retry_index"}
	jv := jobVars[vz.Choice("jobVar", len(jobVars))]
	tv := taskVars[vz.Choice("taskVar", len(taskVars))]
	key := []string{"option.a", "zz.custom"}[vz.Choice("carrier", 2)]
	task := variablecontext.TaskSpec{Name: "job-x-0", Namespace: "ns", RetryIndex: 0, ParallelIndex: execution.ParallelIndex{IndexNumber: pointer.Int64(3)}}
	class := func(mention string) int {
		rj := &execution.Job{}
		rj.Namespace = "ns"
		rj.Name = "job"
		rj.UID = "u1"
		rj.Spec.Type = execution.JobTypeAdhoc
		rj.Spec.Substitutions = map[string]string{key: "run of ${" + mention + "}"}
		spec := v1.PodSpec{Containers: []v1.Container{{Name: "c", Image: "${" + key + "}"}}}
		got := SubstitutePodSpec(rj, spec, task).Containers[0].Image
		ctx := variablecontext.ContextProvider.MakeVariablesFromJob(rj)
		for k, v := range variablecontext.ContextProvider.MakeVariablesFromTask(task) {
			ctx[k] = v
		}
		switch got {
		case "run of " + ctx[mention]:
			return 1 // expanded from the context
		case "run of ${" + mention + "}":
			return 2 // left as text
		case "run of ":
			return 3 // emptied
		}
		return 0
	}
	cj, ct := class(jv), class(tv)
	vz.Assert(cj != 0 && ct != 0, "C18/L2/nested-mention-has-a-defined-treatment")
	vz.Assert(cj == ct, "C18/L2/treatment-of-a-mention-does-not-depend-on-the-variable-name")
	vz.Cover("nested-context-compared")
}
