//go:build verif

package jobconfigvalidatingwebhook

import (
	"context"
	"encoding/json"

	admissionv1 "k8s.io/api/admission/v1"
	metav1 "k8s.io/apimachinery/pkg/apis/meta/v1"
	"k8s.io/apimachinery/pkg/runtime"
	"k8s.io/apimachinery/pkg/util/validation/field"

	executionv1alpha1 "github.com/furiko-io/furiko/apis/execution/v1alpha1"
	vz "github.com/furiko-io/furiko/pkg/zzverif"
)

// the decoded objects the (redirected) json.Unmarshal calls of webhook.go hand out
var verifOld, verifNew *executionv1alpha1.JobConfig

func verifUnmarshal(raw []byte, into interface{}) error {
	if verifOld == nil && verifNew == nil {
		return json.Unmarshal(raw, into)
	}
	rjc, ok := into.(*executionv1alpha1.JobConfig)
	if !ok {
		return json.Unmarshal(raw, into)
	}
	if string(raw) == "old" {
		*rjc = *verifOld
	} else {
		*rjc = *verifNew
	}
	return nil
}

// VerifH_C17_webhookDispatch: "whatever admission accepts" is what Webhook.Handle
// admits. The other C17 lemmas start at the Validator; this one shows that Handle
// admits a create or an update exactly when Webhook.Validate (the Validator
// rules, stubbed here by an arbitrary verdict) raises no error - whatever else the
// object carries (deletionTimestamp, finalizers, generation, resource version).
// JSON decoding is replaced by typed objects.
func VerifH_C17_webhookDispatch() {
	old := &executionv1alpha1.JobConfig{}
	old.Namespace, old.Name, old.UID = "ns", "jc", "uid1"
	nw := old.DeepCopy()
	if vz.Bool("new.beingDeleted") {
		t := metav1.NewTime(vz.InstantNear("deletionTimestamp"))
		nw.DeletionTimestamp = &t
		nw.Finalizers = []string{"example.com/hold"}
		old.Finalizers = []string{"example.com/hold"}
		if vz.Bool("old.beingDeleted") {
			old.DeletionTimestamp = &t
		}
		vz.Cover("object-being-deleted")
	}
	if vz.Bool("new.generationBumped") {
		nw.Generation = old.Generation + 1
	}
	verifOld, verifNew = old, nw
	rejects := vz.Bool("validatorRejects")
	calls := 0
	VerifHook_Webhook_Validate = func(w *Webhook, req *admissionv1.AdmissionRequest, oldRjc, rjc *executionv1alpha1.JobConfig) field.ErrorList {
		calls++
		if req.Operation == admissionv1.Update {
			vz.Assert(oldRjc != nil && oldRjc.UID == "uid1", "C17/webhook/update-validated-against-the-old-object")
		}
		vz.Assert(rjc != nil && rjc.Name == "jc", "C17/webhook/validates-the-submitted-object")
		if rejects {
			return field.ErrorList{field.Invalid(field.NewPath("spec"), "x", "rejected by the validator")}
		}
		return nil
	}
	req := &admissionv1.AdmissionRequest{}
	req.Kind = metav1.GroupVersionKind{Group: executionv1alpha1.GVKJobConfig.Group, Version: executionv1alpha1.GVKJobConfig.Version, Kind: executionv1alpha1.GVKJobConfig.Kind}
	req.Object = runtime.RawExtension{Raw: []byte("new")}
	if vz.Bool("isUpdate") {
		req.Operation = admissionv1.Update
		req.OldObject = runtime.RawExtension{Raw: []byte("old")}
	} else {
		req.Operation = admissionv1.Create
	}
	w := &Webhook{}
	resp, err := w.Handle(context.Background(), req)
	vz.Assert(err == nil && resp != nil, "C17/webhook/handles-create-and-update")
	if resp == nil {
		return
	}
	vz.Assert(calls == 1, "C17/webhook/every-create-and-update-is-validated")
	vz.Assert(resp.Allowed == !rejects, "C17/webhook/admits-exactly-what-the-validator-accepts")
}
