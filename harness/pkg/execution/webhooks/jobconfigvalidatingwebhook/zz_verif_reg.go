//go:build verif

package jobconfigvalidatingwebhook

var verifHarnesses = map[string]func(){
	"VerifH_C17_webhookDispatch": VerifH_C17_webhookDispatch,
}
