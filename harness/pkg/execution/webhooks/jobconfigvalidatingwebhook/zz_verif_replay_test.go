//go:build verif

package jobconfigvalidatingwebhook

import (
	"testing"

	vz "github.com/furiko-io/furiko/pkg/zzverif"
)

func TestVerifReplay(t *testing.T) { vz.ReplayAll(verifHarnesses) }
