//go:build verif

package jobconfigcontroller

import (
	metav1 "k8s.io/apimachinery/pkg/apis/meta/v1"
	"k8s.io/client-go/tools/cache"

	execution "github.com/furiko-io/furiko/apis/execution/v1alpha1"
	"github.com/furiko-io/furiko/pkg/execution/util/jobconfig"
	vz "github.com/furiko-io/furiko/pkg/zzverif"
	"github.com/furiko-io/furiko/pkg/zzverif/fakes"
)

// VerifH_C15_wakeup: every add / update / delete of a Job that belongs to a
// JobConfig, and every JobConfig event, enqueues that JobConfig's key, so the
// status pass (VerifH_C15_status) runs again after whatever could have made the
// status stale; a Job without owner enqueues nothing.
func VerifH_C15_wakeup() {
	jc := &execution.JobConfig{}
	jc.Namespace = "ns"
	jc.Name = "jc"
	jc.UID = "uid1"
	q := &fakes.Queue{}
	jinf, cinf := &fakes.SharedInformer{}, &fakes.SharedInformer{}
	ctx := &Context{
		Context:           &fakes.Context{},
		jobInformer:       &fakes.JobInformer{Inf: jinf, L: &fakes.JobLister{}},
		jobconfigInformer: &fakes.JobConfigInformer{Inf: cinf, L: &fakes.JobConfigLister{Items: []*execution.JobConfig{jc}}},
		queue:             q,
		recorder:          &fakes.Recorder{},
	}
	NewInformerWorker(ctx)
	vz.Assert(len(jinf.Handlers) == 1 && len(cinf.Handlers) == 1, "C15/wake/handlers-registered")
	if vz.Bool("jobConfigEvent") {
		h := cinf.Handlers[0]
		switch vz.Choice("event", 4) {
		case 0:
			h.OnAdd(jc)
		case 1:
			h.OnUpdate(jc, jc.DeepCopy())
		case 2:
			h.OnDelete(jc)
		case 3:
			h.OnDelete(cache.DeletedFinalStateUnknown{Key: "ns/jc", Obj: jc})
		}
		vz.Assert(len(q.Ops) == 1 && q.Ops[0].Op == "add" && q.Ops[0].Key == "ns/jc", "C15/wake/jobconfig-event-enqueues-its-key")
		vz.Cover("jobconfig-event")
		return
	}
	h := jinf.Handlers[0]
	rj := &execution.Job{}
	rj.Namespace = "ns"
	rj.Name = "j0"
	owned := vz.Bool("owned")
	if owned {
		ctrl := true
		rj.OwnerReferences = []metav1.OwnerReference{{Kind: execution.KindJobConfig, Name: "jc", UID: "uid1", Controller: &ctrl}}
		rj.Labels = map[string]string{jobconfig.LabelKeyJobConfigUID: "uid1"}
	}
	if vz.Bool("beingDeleted") {
		// a Job that is being deleted (finalizer pending) still produces events that matter:
		// its deletion is what frees the slot / changes the counts
		t := metav1.NewTime(vz.InstantNear("deletionTimestamp"))
		rj.DeletionTimestamp = &t
		vz.Cover("job-being-deleted")
	}
	switch vz.Choice("event", 4) {
	case 0:
		h.OnAdd(rj)
	case 1:
		old := rj.DeepCopy()
		t := metav1.NewTime(vz.InstantNear("startTime"))
		rj.Status.StartTime = &t
		rj.Status.Phase = execution.JobRunning
		h.OnUpdate(old, rj)
	case 2:
		h.OnDelete(rj)
	case 3:
		h.OnDelete(cache.DeletedFinalStateUnknown{Key: "ns/j0", Obj: rj})
	}
	if owned {
		vz.Assert(len(q.Ops) == 1 && q.Ops[0].Op == "add" && q.Ops[0].Key == "ns/jc", "C15/wake/job-event-enqueues-the-jobconfig")
		vz.Cover("owned-job-event")
	} else {
		vz.Assert(len(q.Ops) == 0, "C15/wake/ownerless-job-enqueues-nothing")
		vz.Cover("ownerless-job-event")
	}
}
