//go:build verif

package jobconfigcontroller

import (
	"context"
	"time"

	metav1 "k8s.io/apimachinery/pkg/apis/meta/v1"

	execution "github.com/furiko-io/furiko/apis/execution/v1alpha1"
	"github.com/furiko-io/furiko/pkg/execution/util/jobconfig"
	vz "github.com/furiko-io/furiko/pkg/zzverif"
	"github.com/furiko-io/furiko/pkg/zzverif/fakes"
)

type verifCJob struct {
	job      *execution.Job
	started  bool
	term     bool
	hasSched bool
	sched    time.Time
	start    time.Time
}

var verifCNames = []string{"j0", "j1", "j2"}

// VerifH_C15_status: one pass from an arbitrary cache of the JobConfig's Jobs
// and an arbitrary old status: the written (or kept) status lists exactly the
// queued and the active Jobs, with matching counts and state, and the
// last-scheduled / last-executed times only move forward and dominate every Job present.
func VerifH_C15_status() {
	n := 2
	if vz.Thorough() {
		n = 3
	}
	now := vz.InstantNear("now")
	vz.NowFn = func() time.Time { return now }
	rjc := &execution.JobConfig{}
	rjc.Namespace = "ns"
	rjc.Name = "jc"
	rjc.UID = "uid1"
	schedKind := vz.Choice("schedule", 3)
	switch schedKind {
	case 1:
		rjc.Spec.Schedule = &execution.ScheduleSpec{Cron: &execution.CronSchedule{Expression: "x"}}
	case 2:
		rjc.Spec.Schedule = &execution.ScheduleSpec{Cron: &execution.CronSchedule{Expression: "x"}, Disabled: true}
	}
	// arbitrary old status
	var oldLS, oldLE time.Time
	hasOldLS, hasOldLE := vz.Bool("old.hasLastScheduled"), vz.Bool("old.hasLastExecuted")
	if hasOldLS {
		oldLS = vz.InstantSec("old.lastScheduled")
		t := metav1.NewTime(oldLS)
		rjc.Status.LastScheduled = &t
	}
	if hasOldLE {
		oldLE = vz.InstantNear("old.lastExecuted")
		t := metav1.NewTime(oldLE)
		rjc.Status.LastExecuted = &t
	}
	rjc.Status.Active = vz.IntRange("old.active", 0, 3)
	rjc.Status.Queued = vz.IntRange("old.queued", 0, 3)
	if vz.Bool("old.hasActiveRef") {
		rjc.Status.ActiveJobs = []execution.JobReference{{Name: vz.Pick("old.activeRef", "j0", "gone")}}
	}
	jl := &fakes.JobLister{}
	var jobs []*verifCJob
	for i := 0; i < n; i++ {
		if !vz.Bool(verifCNames[i] + ".exists") {
			continue
		}
		cj := &verifCJob{job: &execution.Job{}}
		cj.job.Namespace = "ns"
		cj.job.Name = verifCNames[i]
		cj.job.UID = "u-" + "x"
		cj.job.CreationTimestamp = metav1.NewTime(time.Unix(int64(100+i), 0))
		if vz.Bool(verifCNames[i] + ".ownLabel") {
			cj.job.Labels = map[string]string{jobconfig.LabelKeyJobConfigUID: "uid1"}
		} else {
			cj.job.Labels = map[string]string{jobconfig.LabelKeyJobConfigUID: "other"}
			jl.Items = append(jl.Items, cj.job)
			continue // a Job of another JobConfig: must be ignored
		}
		if vz.Bool(verifCNames[i] + ".started") {
			cj.started = true
			cj.start = vz.InstantNear(verifCNames[i] + ".startTime")
			t := metav1.NewTime(cj.start)
			cj.job.Status.StartTime = &t
		}
		if vz.Bool(verifCNames[i] + ".terminal") {
			cj.term = true
			cj.job.Status.Phase = execution.JobSucceeded
		} else {
			cj.job.Status.Phase = execution.JobRunning
		}
		switch vz.Choice(verifCNames[i]+".schedAnnotation", 3) {
		case 1:
			cj.hasSched = true
			cj.sched = vz.InstantSec(verifCNames[i] + ".scheduleTime")
			rj2, _ := jobconfig.NewJobFromJobConfig(rjc, execution.JobTypeScheduled, cj.sched)
			cj.job.Annotations = rj2.Annotations
		case 2:
			cj.job.Annotations = map[string]string{jobconfig.AnnotationKeyScheduleTime: "garbage"}
		}
		jobs = append(jobs, cj)
		jl.Items = append(jl.Items, cj.job)
	}
	api := &fakes.API{}
	var written *execution.JobConfig
	api.Decide = func(c *fakes.APICall) error {
		if vz.Bool("api.fails") {
			return fakes.ErrorOfKind(0, c.Name)
		}
		return nil
	}
	api.Apply = func(c *fakes.APICall) { written = c.JobConfig }
	ctx := &Context{
		Context:           &fakes.Context{Cs: &fakes.Clientsets{F: &fakes.FurikoClientset{Exec: &fakes.ExecClient{A: api}}}},
		jobInformer:       &fakes.JobInformer{Inf: &fakes.SharedInformer{}, L: jl},
		jobconfigInformer: &fakes.JobConfigInformer{Inf: &fakes.SharedInformer{}, L: &fakes.JobConfigLister{Items: []*execution.JobConfig{rjc}}},
		recorder:          &fakes.Recorder{},
	}
	r := &Reconciler{Context: ctx}
	err := r.SyncOne(context.Background(), "ns", "jc", 0)
	failed := false
	for _, c := range api.Calls {
		if c.Err != nil {
			failed = true
		}
	}
	if failed {
		vz.Assert(err != nil, "C20/jobconfig-status-write-failure-is-retried")
		vz.Cover("write-failed")
		return
	}
	vz.Assert(err == nil, "C15/pass-succeeds")
	st := rjc.Status // no write => the old status was already exact
	if written != nil {
		st = written.Status
		vz.Cover("status-written")
	} else {
		vz.Cover("status-unchanged")
	}
	wantActive, wantQueued := 0, 0
	for _, cj := range jobs {
		active := cj.started && !cj.term
		queued := !cj.started && !cj.term
		inA, inQ := false, false
		for _, ref := range st.ActiveJobs {
			if ref.Name == cj.job.Name {
				inA = true
			}
		}
		for _, ref := range st.QueuedJobs {
			if ref.Name == cj.job.Name {
				inQ = true
			}
		}
		vz.Assert(inA == active, "C15/active-list-exact")
		vz.Assert(inQ == queued, "C15/queued-list-exact")
		if active {
			wantActive++
		}
		if queued {
			wantQueued++
		}
		if cj.hasSched {
			vz.Assert(st.LastScheduled != nil && !st.LastScheduled.Time.Before(cj.sched), "C15/lastScheduled-dominates-jobs")
		}
		if cj.started {
			vz.Assert(st.LastExecuted != nil && !st.LastExecuted.Time.Before(cj.start), "C15/lastExecuted-dominates-jobs")
		}
	}
	vz.Assert(len(st.ActiveJobs) == wantActive && st.Active == int64(wantActive), "C15/active-count")
	vz.Assert(len(st.QueuedJobs) == wantQueued && st.Queued == int64(wantQueued), "C15/queued-count")
	if hasOldLS {
		vz.Assert(st.LastScheduled != nil && !st.LastScheduled.Time.Before(oldLS), "C15/lastScheduled-never-moves-back")
	}
	if hasOldLE {
		vz.Assert(st.LastExecuted != nil && !st.LastExecuted.Time.Before(oldLE), "C15/lastExecuted-never-moves-back")
	}
	wantState := execution.JobConfigReady
	switch {
	case wantActive > 0:
		wantState = execution.JobConfigExecuting
	case wantQueued > 0:
		wantState = execution.JobConfigJobQueued
	case schedKind == 1:
		wantState = execution.JobConfigReadyEnabled
	case schedKind == 2:
		wantState = execution.JobConfigReadyDisabled
	}
	vz.Assert(st.State == wantState, "C15/state-reflects-jobs-and-schedule")
	if wantActive > 0 && wantQueued > 0 {
		vz.Cover("active-and-queued")
	}
	// every reference identifies the Job that is in the cache (not merely its name)
	checkRefs := func(st execution.JobConfigStatus) {
		for _, list := range [][]execution.JobReference{st.ActiveJobs, st.QueuedJobs} {
			for _, ref := range list {
				for _, cj := range jobs {
					if cj.job.Name == ref.Name {
						vz.Assert(ref.UID == cj.job.UID && ref.CreationTimestamp.Equal(&cj.job.CreationTimestamp), "C15/references-identify-the-cached-job")
					}
				}
			}
		}
	}
	checkRefs(st)
	// second pass from the exact status, except that one reference still describes an
	// earlier Job of the same name (deleted and re-created between two passes)
	nrefs := len(st.ActiveJobs) + len(st.QueuedJobs)
	if nrefs == 0 || !vz.Bool("staleIncarnation") {
		return
	}
	rjc2 := rjc.DeepCopy()
	rjc2.Status = *st.DeepCopy()
	k := vz.Choice("staleRef", nrefs)
	var ref *execution.JobReference
	if k < len(rjc2.Status.ActiveJobs) {
		ref = &rjc2.Status.ActiveJobs[k]
	} else {
		ref = &rjc2.Status.QueuedJobs[k-len(rjc2.Status.ActiveJobs)]
	}
	ref.UID = "u-previous-incarnation"
	ref.CreationTimestamp = metav1.NewTime(time.Unix(50, 0))
	ctx.jobconfigInformer = &fakes.JobConfigInformer{Inf: &fakes.SharedInformer{}, L: &fakes.JobConfigLister{Items: []*execution.JobConfig{rjc2}}}
	written = nil
	ncalls := len(api.Calls)
	err2 := r.SyncOne(context.Background(), "ns", "jc", 0)
	for _, c := range api.Calls[ncalls:] {
		if c.Err != nil {
			vz.Assert(err2 != nil, "C20/jobconfig-status-write-failure-is-retried")
			return
		}
	}
	vz.Assert(err2 == nil, "C15/pass-succeeds")
	st2 := rjc2.Status
	if written != nil {
		st2 = written.Status
	}
	vz.Cover("stale-incarnation-pass")
	checkRefs(st2)
}
