//go:build verif

package jobconfigcontroller

var verifHarnesses = map[string]func(){
	"VerifH_C15_status": VerifH_C15_status,
	"VerifH_C15_wakeup": VerifH_C15_wakeup,
	"VerifH_C04_L3_recorded": VerifH_C04_L3_recorded,
}
