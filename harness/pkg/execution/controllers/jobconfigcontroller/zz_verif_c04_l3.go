//go:build verif

package jobconfigcontroller

import (
	"context"
	"time"

	metav1 "k8s.io/apimachinery/pkg/apis/meta/v1"

	execution "github.com/furiko-io/furiko/apis/execution/v1alpha1"
	"github.com/furiko-io/furiko/pkg/execution/util/jobconfig"
	vz "github.com/furiko-io/furiko/pkg/zzverif"
	"github.com/furiko-io/furiko/pkg/zzverif/fakes"
)

// VerifH_C04_L3_recorded: the "last recorded schedule time" that the restart
// lemma (C04-L2) starts from is status.lastScheduled, written by the JobConfig
// controller. One pass from an arbitrary recorded value and an arbitrary cache
// of the JobConfig's scheduled Jobs (the newest one may already be gone while
// older ones remain, or all of them may be gone): the recorded value never moves
// back and is at least the schedule time of every Job still present - otherwise
// a schedule time that was already requested would be requested again after the
// next restart.
func VerifH_C04_L3_recorded() {
	now := vz.InstantNear("now")
	vz.NowFn = func() time.Time { return now }
	rjc := &execution.JobConfig{}
	rjc.Namespace = "ns"
	rjc.Name = "jc"
	rjc.UID = "uid1"
	rjc.Spec.Schedule = &execution.ScheduleSpec{Cron: &execution.CronSchedule{Expression: "x"}, Disabled: vz.Bool("disabled")}
	var oldLS time.Time
	hasOldLS := vz.Bool("old.hasLastScheduled")
	if hasOldLS {
		oldLS = vz.InstantSec("old.lastScheduled")
		t := metav1.NewTime(oldLS)
		rjc.Status.LastScheduled = &t
	}
	jl := &fakes.JobLister{}
	var scheds []time.Time
	for i := 0; i < 2; i++ {
		if !vz.Bool(verifCNames[i] + ".exists") {
			continue
		}
		rj := &execution.Job{}
		rj.Namespace = "ns"
		rj.Name = verifCNames[i]
		rj.UID = "u-x"
		rj.CreationTimestamp = metav1.NewTime(time.Unix(int64(100+i), 0))
		rj.Labels = map[string]string{jobconfig.LabelKeyJobConfigUID: "uid1"}
		rj.Status.Phase = execution.JobSucceeded
		if vz.Bool(verifCNames[i] + ".scheduled") {
			ts := vz.InstantSec(verifCNames[i] + ".scheduleTime")
			rj2, _ := jobconfig.NewJobFromJobConfig(rjc, execution.JobTypeScheduled, ts)
			rj.Annotations = rj2.Annotations
			scheds = append(scheds, ts)
		}
		jl.Items = append(jl.Items, rj)
	}
	api := &fakes.API{}
	var written *execution.JobConfig
	api.Decide = func(c *fakes.APICall) error { return nil }
	api.Apply = func(c *fakes.APICall) { written = c.JobConfig }
	ctx := &Context{
		Context:           &fakes.Context{Cs: &fakes.Clientsets{F: &fakes.FurikoClientset{Exec: &fakes.ExecClient{A: api}}}},
		jobInformer:       &fakes.JobInformer{Inf: &fakes.SharedInformer{}, L: jl},
		jobconfigInformer: &fakes.JobConfigInformer{Inf: &fakes.SharedInformer{}, L: &fakes.JobConfigLister{Items: []*execution.JobConfig{rjc}}},
		recorder:          &fakes.Recorder{},
	}
	r := &Reconciler{Context: ctx}
	err := r.SyncOne(context.Background(), "ns", "jc", 0)
	vz.Assert(err == nil, "C04/L3/pass-succeeds")
	st := rjc.Status
	if written != nil {
		st = written.Status
		vz.Cover("status-written")
	}
	if hasOldLS {
		vz.Assert(st.LastScheduled != nil && !st.LastScheduled.Time.Before(oldLS), "C04/L3/recorded-schedule-time-never-moves-back")
		if len(scheds) > 0 {
			vz.Cover("recorded-and-jobs")
		}
	}
	for _, ts := range scheds {
		vz.Assert(st.LastScheduled != nil && !st.LastScheduled.Time.Before(ts), "C04/L3/recorded-schedule-time-covers-every-job-present")
	}
	if len(scheds) == 0 && !hasOldLS {
		vz.Assert(st.LastScheduled == nil, "C04/L3/never-scheduled-stays-unrecorded")
		vz.Cover("never-scheduled")
	}
}
