//go:build verif

package jobqueuecontroller

import (
	metav1 "k8s.io/apimachinery/pkg/apis/meta/v1"
	"k8s.io/client-go/tools/cache"

	execution "github.com/furiko-io/furiko/apis/execution/v1alpha1"
	"github.com/furiko-io/furiko/pkg/execution/util/jobconfig"
	vz "github.com/furiko-io/furiko/pkg/zzverif"
	"github.com/furiko-io/furiko/pkg/zzverif/fakes"
)

// VerifH_C06_wakeup: every add / update / delete of a Job wakes up exactly the
// queue that decides about it: the JobConfig's key for a Job with a valid owner,
// the Job's own key for an independent Job (so every capacity-freeing event
// triggers an admission pass).
func VerifH_C06_wakeup() {
	jc := &execution.JobConfig{}
	jc.Namespace = "ns"
	jc.Name = "jc"
	jc.UID = "uid1"
	q, iq := &fakes.Queue{}, &fakes.Queue{}
	jinf := &fakes.SharedInformer{}
	// the JobConfig cache may lag behind the Job cache (freshly created JobConfig,
	// initial list order at start-up): the owner of an owned Job may not be visible yet
	jcItems := []*execution.JobConfig{jc}
	jcVisible := vz.Bool("jobConfigInCache")
	if !jcVisible {
		jcItems = nil
	}
	ctx := &Context{
		Context:           &fakes.Context{},
		jobInformer:       &fakes.JobInformer{Inf: jinf, L: &fakes.JobLister{}},
		jobconfigInformer: &fakes.JobConfigInformer{Inf: &fakes.SharedInformer{}, L: &fakes.JobConfigLister{Items: jcItems}},
		jobConfigQueue:    q,
		independentQueue:  iq,
		recorder:          &fakes.Recorder{},
	}
	NewInformerWorker(ctx)
	vz.Assert(len(jinf.Handlers) == 1, "C06/wake/handler-registered")
	h := jinf.Handlers[0]
	rj := &execution.Job{}
	rj.Namespace = "ns"
	rj.Name = "j0"
	owned := vz.Bool("owned")
	if owned {
		ctrl := true
		rj.OwnerReferences = []metav1.OwnerReference{{Kind: execution.KindJobConfig, Name: "jc", UID: "uid1", Controller: &ctrl}}
		rj.Labels = map[string]string{jobconfig.LabelKeyJobConfigUID: "uid1"}
	}
	if vz.Bool("beingDeleted") {
		// a Job that is being deleted (finalizer pending) still produces events that matter:
		// its deletion is what frees the slot / changes the counts
		t := metav1.NewTime(vz.InstantNear("deletionTimestamp"))
		rj.DeletionTimestamp = &t
		vz.Cover("job-being-deleted")
	}
	switch vz.Choice("event", 4) {
	case 0:
		h.OnAdd(rj)
	case 1:
		old := rj.DeepCopy()
		t := metav1.NewTime(vz.InstantNear("startTime"))
		rj.Status.StartTime = &t
		rj.Status.Phase = execution.JobSucceeded // e.g. the Job finished: capacity is free again
		h.OnUpdate(old, rj)
	case 2:
		h.OnDelete(rj)
	case 3:
		h.OnDelete(cache.DeletedFinalStateUnknown{Key: "ns/j0", Obj: rj})
	}
	if owned && !jcVisible {
		// whatever else happens, a Job that belongs to a JobConfig is never handed to the
		// independent reconciler, which starts Jobs without any concurrency admission
		vz.Assert(len(iq.Ops) == 0, "C05/wake/owned-job-never-decided-without-its-jobconfig")
		vz.Assert(len(iq.Ops) == 0, "C06/wake/not-enqueued-as-independent")
		vz.Cover("owner-not-in-cache")
	} else if owned {
		vz.Assert(q.Count("add") == 1 && len(q.Ops) == 1 && q.Ops[0].Key == "ns/jc", "C06/wake/jobconfig-key-enqueued")
		vz.Assert(len(iq.Ops) == 0, "C06/wake/not-enqueued-as-independent")
		vz.Cover("owned")
	} else {
		vz.Assert(iq.Count("add") == 1 && len(iq.Ops) == 1 && iq.Ops[0].Key == "ns/j0", "C07/wake/independent-job-key-enqueued")
		vz.Assert(len(q.Ops) == 0, "C06/wake/no-jobconfig-key-for-independent")
		vz.Cover("independent")
	}
}
