//go:build verif

package jobqueuecontroller

import (
	"context"
	"time"

	metav1 "k8s.io/apimachinery/pkg/apis/meta/v1"

	execution "github.com/furiko-io/furiko/apis/execution/v1alpha1"
	vz "github.com/furiko-io/furiko/pkg/zzverif"
	"github.com/furiko-io/furiko/pkg/zzverif/fakes"
)

// VerifH_C05_L4_startHistory: the life of one admitted Job, end to end through
// the real reconciler and the real store: the start write is applied, refused,
// or applied although the client sees a timeout; afterwards the informer tells
// the store what became of the Job - event by event, or coalesced the way a
// relist delivers it (old = last state the cache had, new = current state), or
// as a deletion whose final state is the stale cached one. At the quiescent
// point the counter equals the background count plus "this Job is active".
func VerifH_C05_L4_startHistory() {
	env, ctx := verifSetupQueueOpts(verifQOpts{n: 1, interference: 0, fifoOnly: true})
	q := env.jobs[0]
	vz.Assume(env.c0 < env.max) // there is room: the Job is admitted
	ambiguous := false
	apply := env.api.Apply
	env.api.Decide = func(c *fakes.APICall) error {
		switch vz.Choice("startWrite", 3) {
		case 1: // refused by the server: no effect
			env.failed++
			return fakes.ErrorOfKind(2, c.Name)
		case 2: // committed by the server, but the client sees its own timeout
			apply(c)
			ambiguous = true
			env.failed++
			return fakes.ErrorOfKind(6, c.Name)
		}
		return nil
	}
	r := NewPerConfigReconciler(ctx, nil, NewJobControl(&fakes.ExecClient{A: env.api}, ctx.recorder))
	err := r.SyncOne(context.Background(), "ns", "jc", 0)
	vz.OnAtomic(nil, 0)
	if env.failed > 0 {
		vz.Assert(err != nil, "C20/failed-write-is-reported-for-retry")
	}
	cached := q.job // what the informer cache last saw: queued, not started
	active := cached.DeepCopy()
	st := metav1.NewTime(time.Unix(100, 0))
	active.Status.StartTime = &st
	active.Status.Phase = execution.JobRunning
	finished := active.DeepCopy()
	finished.Status.Phase = execution.JobSucceeded
	truth := int64(0)
	delivery := -1
	if q.started {
		delivery = vz.Choice("delivery", 5)
		switch delivery {
		case 0: // start event; the Job keeps running
			env.store.OnUpdate(cached, active)
			truth = 1
		case 1: // start event, then finish event
			env.store.OnUpdate(cached, active)
			env.store.OnUpdate(active, finished)
		case 2: // relist: start and finish arrive as one update
			env.store.OnUpdate(cached, finished)
			vz.Cover("coalesced-start-and-finish")
		case 3: // the Job was deleted while the watch was down: tombstone with the stale state
			env.store.OnDelete(cached)
			vz.Cover("deleted-with-stale-final-state")
		case 4: // start event, then deletion of the running Job
			env.store.OnUpdate(cached, active)
			env.store.OnDelete(active)
		}
	}
	got := env.store.VerifCount("uid1")
	vz.Observe("counter", got)
	if ambiguous {
		vz.Cover("write-committed-but-reported-failed")
		vz.Finding("F05-1")
	} else if delivery == 2 || delivery == 3 {
		vz.Finding("F05-2")
	}
	// safety direction (C05): never fewer than the Jobs that are really active
	vz.Assert(got >= env.c0+truth, "C05/L4/counter-not-below-active-jobs")
	// liveness direction (C06): no slot stays taken by a Job that is gone
	vz.Assert(got <= env.c0+truth, "C06/L4/no-slot-held-by-a-job-that-is-gone")
	if q.started && !ambiguous {
		vz.Cover("started-and-delivered")
	}
	// What the counter is for: with this Job running, a second Enqueue Job of the
	// JobConfig arrives and the queue is synced again. It must not be started
	// beside the first one beyond maxConcurrency.
	if delivery == 0 {
		*q.job = *active // the cache has caught up: the first Job is started and running
		q.queued = false
		j1 := &verifQJob{job: &execution.Job{}, queued: true, policy: execution.ConcurrencyPolicyEnqueue}
		j1.job.Namespace = "ns"
		j1.job.Name = "j1"
		j1.job.Labels = q.job.Labels
		j1.job.CreationTimestamp = metav1.NewTime(time.Unix(200, 0))
		j1.job.Spec.StartPolicy = &execution.StartPolicySpec{ConcurrencyPolicy: execution.ConcurrencyPolicyEnqueue}
		env.jobs = append(env.jobs, j1)
		ctx.jobInformer.(*fakes.JobInformer).L.(*fakes.JobLister).Items = append(ctx.jobInformer.(*fakes.JobInformer).L.(*fakes.JobLister).Items, j1.job)
		env.api.Decide = nil
		_ = r.SyncOne(context.Background(), "ns", "jc", 0)
		vz.Cover("second-job-arrives")
		// background Jobs (c0 of them) plus the first Job are really running
		vz.Assert(!j1.started || env.c0+1 < env.max, "C05/L4/second-job-not-started-beyond-maxConcurrency")
	}
}
