//go:build verif

package jobqueuecontroller

import (
	"context"
	"time"

	metav1 "k8s.io/apimachinery/pkg/apis/meta/v1"
	"k8s.io/utils/pointer"

	execution "github.com/furiko-io/furiko/apis/execution/v1alpha1"
	"github.com/furiko-io/furiko/pkg/execution/stores/activejobstore"
	jobutil "github.com/furiko-io/furiko/pkg/execution/util/job"
	"github.com/furiko-io/furiko/pkg/execution/util/jobconfig"
	"github.com/furiko-io/furiko/pkg/utils/ktime"
	vz "github.com/furiko-io/furiko/pkg/zzverif"
	"github.com/furiko-io/furiko/pkg/zzverif/fakes"
)

type verifQJob struct {
	job        *execution.Job
	queued     bool
	policy     execution.ConcurrencyPolicy // "" = no start policy
	hasSA      bool
	startAfter time.Time
	created    time.Time
	// outcome of the pass
	started  bool
	rejected bool
	countAtStart int64
	startedAt    time.Time
	startIdx     int
}

type verifQEnv struct {
	rjc    *execution.JobConfig
	jobs   []*verifQJob
	store  *activejobstore.Store
	api    *fakes.API
	queue  *fakes.Queue
	iqueue *fakes.Queue
	now    time.Time
	max    int64
	c0     int64
	finishes int64
	failed int
	nstart int
}

var verifJobNames = []string{"j0", "j1", "j2", "j3"}

type verifQOpts struct {
	n, interference int
	fifoOnly        bool // every Job is queued and due, policy is Enqueue or none, writes never fail
}

func verifSetupQueue(n int, interference int) (*verifQEnv, *Context) {
	return verifSetupQueueOpts(verifQOpts{n: n, interference: interference})
}

func verifSetupQueueOpts(o verifQOpts) (*verifQEnv, *Context) {
	n, interference := o.n, o.interference
	env := &verifQEnv{api: &fakes.API{}, queue: &fakes.Queue{}, iqueue: &fakes.Queue{}}
	env.now = vz.InstantNear("now")
	now2 := vz.InstantNear("now2") // a later reading for time.Until
	vz.Assume(!now2.Before(env.now))
	reads := 0
	vz.NowFn = func() time.Time {
		reads++
		if reads > 1000 {
			return now2
		}
		return env.now
	}
	ktime.Clock = fakes.Clock{}
	env.rjc = &execution.JobConfig{}
	env.rjc.Namespace = "ns"
	env.rjc.Name = "jc"
	env.rjc.UID = "uid1"
	env.max = 1
	if vz.Bool("hasMaxConcurrency") {
		m := vz.IntRange("maxConcurrency", 1, 3)
		env.rjc.Spec.Concurrency.MaxConcurrency = pointer.Int64(m)
		env.max = m
	}
	env.store = activejobstore.VerifNewStore()
	env.c0 = vz.IntRange("counter", 0, 4)
	env.store.VerifSetCount("uid1", env.c0)
	jl := &fakes.JobLister{}
	for i := 0; i < n; i++ {
		q := &verifQJob{job: &execution.Job{}}
		q.job.Namespace = "ns"
		q.job.Name = verifJobNames[i]
		q.job.Labels = map[string]string{jobconfig.LabelKeyJobConfigUID: "uid1"}
		q.created = vz.InstantSec(verifJobNames[i] + ".created")
		q.job.CreationTimestamp = metav1.NewTime(q.created)
		q.queued = o.fifoOnly || vz.Bool(verifJobNames[i]+".queued")
		if !q.queued {
			// started-and-running or finished: must be ignored by the pass
			if vz.Bool(verifJobNames[i] + ".started") {
				t := metav1.NewTime(vz.Instant(verifJobNames[i] + ".startTime"))
				q.job.Status.StartTime = &t
				q.job.Status.Phase = execution.JobRunning
			} else {
				q.job.Status.Phase = execution.JobAdmissionError
			}
		}
		pc := 0
		if o.fifoOnly {
			pc = 3 * vz.Choice(verifJobNames[i]+".enqueue", 2)
		} else {
			pc = vz.Choice(verifJobNames[i]+".policy", 4)
		}
		switch pc {
		case 0:
		case 1:
			q.policy = execution.ConcurrencyPolicyAllow
		case 2:
			q.policy = execution.ConcurrencyPolicyForbid
		case 3:
			q.policy = execution.ConcurrencyPolicyEnqueue
		}
		if q.policy != "" {
			q.job.Spec.StartPolicy = &execution.StartPolicySpec{ConcurrencyPolicy: q.policy}
			if !o.fifoOnly && vz.Bool(verifJobNames[i]+".hasStartAfter") {
				q.hasSA = true
				q.startAfter = vz.InstantNear(verifJobNames[i] + ".startAfter")
				t := metav1.NewTime(q.startAfter)
				q.job.Spec.StartPolicy.StartAfter = &t
			}
		}
		env.jobs = append(env.jobs, q)
		jl.Items = append(jl.Items, q.job)
	}
	// API: each write may fail without effect
	env.api.Decide = func(c *fakes.APICall) error {
		if !o.fifoOnly && vz.Bool("apiFails") {
			env.failed++
			return fakes.ErrorOfKind([]int{0, 1, 2, 4}[vz.Choice("errKind", 4)], c.Name)
		}
		return nil
	}
	env.api.Apply = func(c *fakes.APICall) {
		for _, q := range env.jobs {
			if q.job.Name != c.Name {
				continue
			}
			if c.Verb == "updateStatus" && !c.Job.Status.StartTime.IsZero() {
				vz.Assert(!q.started, "C05/L3/started-at-most-once")
				q.started = true
				q.countAtStart = env.store.VerifCount("uid1")
				q.startedAt = c.At
				q.startIdx = env.nstart
				env.nstart++
			}
			if c.Verb == "update" {
				if _, ok := jobutil.GetAdmissionErrorMessage(c.Job); ok {
					q.rejected = true
					vz.Assert(jobutil.GetPhase(verifWithCondition(c.Job)) == execution.JobAdmissionError, "C06/rejected-job-is-terminal-AdmissionError")
				}
			}
		}
	}
	if interference > 0 {
		// other goroutines: the informer delivers "an active Job of this JobConfig finished"
		vz.OnAtomic(func() {
			if env.store.VerifCount("uid1") > 0 {
				env.store.Delete(env.rjc)
				env.finishes++
			}
		}, interference)
	}
	ctx := &Context{
		Context:           &fakes.Context{St: &fakes.Stores{Active: env.store}},
		jobInformer:       &fakes.JobInformer{Inf: &fakes.SharedInformer{}, L: jl},
		jobconfigInformer: &fakes.JobConfigInformer{Inf: &fakes.SharedInformer{}, L: &fakes.JobConfigLister{Items: []*execution.JobConfig{env.rjc}}},
		jobConfigQueue:    env.queue,
		independentQueue:  env.iqueue,
		recorder:          &fakes.Recorder{},
	}
	return env, ctx
}

// verifWithCondition applies the status the job controller derives for a Job.
func verifWithCondition(rj *execution.Job) *execution.Job {
	out := rj.DeepCopy()
	cond, err := jobutil.GetCondition(out)
	vz.Assert(err == nil, "C06/condition-computable")
	out.Status.Condition = cond
	return out
}

func (q *verifQJob) due(now time.Time) bool { return !q.hasSA || !q.startAfter.After(now) }

// VerifH_C05_L3_admission: one PerConfigReconciler pass from an arbitrary
// queue/counter state with failing writes and concurrent finish events.
func VerifH_C05_L3_admission() {
	n := 2
	interference := 1
	if vz.Thorough() {
		// (three Jobs are explored by VerifH_C06_fifo3 on the policies where the order of
		// starts matters; the full product with three Jobs did not finish within 45 minutes)
		interference = 2
	}
	env, ctx := verifSetupQueue(n, interference)
	env.verifRunAdmission(ctx)
}

// VerifH_C06_fifo3: three queued, due Jobs (Enqueue or no policy) and up to two
// finish events arriving while the pass runs: Enqueue Jobs start in creation order.
func VerifH_C06_fifo3() {
	env, ctx := verifSetupQueueOpts(verifQOpts{n: 3, interference: 2, fifoOnly: true})
	env.verifRunAdmission(ctx)
	if env.finishes == 2 {
		vz.Cover("two-concurrent-finishes")
	}
}

func (env *verifQEnv) verifRunAdmission(ctx *Context) {
	r := NewPerConfigReconciler(ctx, nil, NewJobControl(&fakes.ExecClient{A: env.api}, ctx.recorder))
	err := r.SyncOne(context.Background(), "ns", "jc", 0)
	vz.OnAtomic(nil, 0)
	now := env.now
	applied := int64(0)
	for _, q := range env.jobs {
		if q.started {
			applied++
			vz.Cover("started-some")
			vz.Assert(q.queued, "C05/L3/only-queued-jobs-start")
			vz.Assert(q.due(now), "C07/never-before-startAfter")
			if q.policy == execution.ConcurrencyPolicyForbid || q.policy == execution.ConcurrencyPolicyEnqueue {
				// the slot taken by this start, counted on the shared counter, is within the limit
				vz.Assert(q.countAtStart <= env.max, "C05/L3/start-within-maxConcurrency")
			}
			vz.Assert(!q.rejected, "C06/rejected-never-started")
		}
		if q.rejected {
			vz.Cover("rejected-some")
			vz.Assert(q.policy == execution.ConcurrencyPolicyForbid, "C06/only-Forbid-is-rejected")
			vz.Assert(q.queued && q.due(now), "C06/reject-only-due-queued")
		}
	}
	// counter accounting: every applied start holds exactly one slot; failed writes rolled back
	vz.Observe("counterAfter", env.store.VerifCount("uid1"))
	vz.Assert(env.store.VerifCount("uid1") == env.c0+applied-env.finishes, "C05/L3/counter-accounting")
	// a slot that is held without a started Job would keep Enqueue Jobs queued (and Forbid Jobs refused) for ever
	vz.Assert(env.store.VerifCount("uid1") <= env.c0+applied-env.finishes, "C06/no-slot-held-without-a-started-job")
	if env.finishes > 0 {
		vz.Cover("concurrent-finish")
	}
	if env.failed > 0 {
		vz.Cover("write-failed")
		vz.Assert(err != nil, "C20/failed-write-is-reported-for-retry")
		// a failed write leaves no trace in the in-memory state the retry starts from
		vz.Assert(env.store.VerifCount("uid1") == env.c0+applied-env.finishes, "C20/failed-write-leaves-counter-consistent")
	}
	// FIFO among Enqueue jobs: a later-created one never starts while an earlier-created due one stays queued
	for _, a := range env.jobs {
		for _, b := range env.jobs {
			if a == b || a.policy != execution.ConcurrencyPolicyEnqueue || b.policy != execution.ConcurrencyPolicyEnqueue {
				continue
			}
			if a.queued && b.queued && a.created.Before(b.created) && b.started && a.due(now) {
				vz.Assert(a.started, "C06/enqueue-fifo")
				vz.Assert(a.startIdx < b.startIdx, "C06/enqueue-fifo-order")
				vz.Cover("fifo-pair")
			}
		}
	}
	// A pass that returns nil asks for no retry. Whatever happened concurrently, a due Job
	// may then be left queued only because capacity was lacking when it was judged: the
	// counter it was judged against is at most c0 + (starts applied in this pass), so if even
	// that is below the limit the Job was startable and had to be started (or the pass had
	// to fail and be retried). Allow / no-policy Jobs never wait for capacity at all.
	if err == nil && env.failed == 0 {
		for _, q := range env.jobs {
			if !q.queued || q.started || q.rejected || !q.due(now) {
				continue
			}
			excused := false
			if q.policy == execution.ConcurrencyPolicyEnqueue || q.policy == execution.ConcurrencyPolicyForbid {
				excused = env.c0+applied >= env.max
			}
			vz.Assert(excused, "C06/due-job-is-started-or-the-pass-asks-for-retry")
			vz.Assert(excused, "C07/due-job-is-started-or-the-pass-asks-for-retry")
		}
	}
	// quiet system (no failed write, no concurrent event): nobody due stays queued while capacity is free
	if err == nil && env.failed == 0 && env.finishes == 0 {
		after := env.store.VerifCount("uid1")
		// the moment the earliest not-yet-due Job becomes due, a re-sync lands (within the
		// 1 s granularity of the queue): otherwise a due Job sits in a quiet system with nothing
		// to wake the reconciler. Later Jobs are covered by induction (that pass arms again).
		hasWaiting := false
		var sMin time.Time
		for _, q := range env.jobs {
			if q.queued && !q.started && !q.rejected && !q.due(now) {
				if !hasWaiting || q.startAfter.Before(sMin) {
					sMin = q.startAfter
				}
				hasWaiting = true
			}
		}
		if hasWaiting {
			timely := false
			for _, op := range env.queue.Ops {
				if op.Op == "addAfter" && op.Key == "ns/jc" {
					timely = vz.Or(timely, !op.At.Add(op.After).After(sMin.Add(time.Second)))
				}
			}
			vz.Assert(timely, "C06/resync-lands-when-the-earliest-waiting-job-becomes-due")
			vz.Assert(timely, "C07/resync-lands-when-the-earliest-waiting-job-becomes-due")
		}
		for _, q := range env.jobs {
			if !q.queued || q.started || q.rejected {
				continue
			}
			if !q.due(now) {
				// a re-sync is armed that lands at or after the due time
				armed := false
				for _, op := range env.queue.Ops {
					if op.Op == "addAfter" && op.Key == "ns/jc" {
						armed = vz.Or(armed, !op.At.Add(op.After).Before(q.startAfter))
					}
				}
				vz.Assert(armed, "C07/resync-armed-for-startAfter")
				vz.Cover("not-yet-due")
				continue
			}
			switch q.policy {
			case "", execution.ConcurrencyPolicyAllow:
				vz.Assert(false, "C06/allow-always-starts")
			case execution.ConcurrencyPolicyEnqueue:
				vz.Assert(after >= env.max, "C06/no-due-enqueue-job-stuck-with-free-capacity")
				vz.Cover("enqueue-waits-at-limit")
			case execution.ConcurrencyPolicyForbid:
				vz.Assert(false, "C06/forbid-at-limit-is-rejected-not-left-queued")
			}
		}
	}
}

// VerifH_C07_independent: a Job without a JobConfig starts as soon as it is due
// and never before startAfter; otherwise a re-sync is armed at or after the due time.
func VerifH_C07_independent() {
	env, ctx := verifSetupQueue(1, 0)
	q := env.jobs[0]
	q.job.Labels = nil
	r := NewIndependentReconciler(ctx, nil, NewJobControl(&fakes.ExecClient{A: env.api}, ctx.recorder))
	err := r.SyncOne(context.Background(), "ns", "j0", 0)
	if q.started {
		vz.Assert(q.queued && q.due(env.now), "C07/independent-never-before-startAfter")
		vz.Cover("started")
	}
	vz.Assert(env.store.VerifCount("uid1") == env.c0, "C07/independent-does-not-touch-counter")
	if err == nil && env.failed == 0 && q.queued && !q.started {
		vz.Assert(!q.due(env.now), "C07/independent-due-job-starts")
		armed := false
		for _, op := range env.iqueue.Ops {
			if op.Op == "addAfter" && op.Key == "ns/j0" {
				armed = vz.Or(armed, !op.At.Add(op.After).Before(q.startAfter))
			}
		}
		vz.Assert(armed, "C07/independent-resync-armed")
		vz.Cover("armed")
	}
	if env.failed > 0 {
		vz.Assert(err != nil, "C20/independent-failed-write-reported")
	}
}
