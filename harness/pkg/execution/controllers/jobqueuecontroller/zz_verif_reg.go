//go:build verif

package jobqueuecontroller

var verifHarnesses = map[string]func(){
	"VerifH_C05_L3_admission": VerifH_C05_L3_admission,
	"VerifH_C07_independent":  VerifH_C07_independent,
	"VerifH_C06_wakeup": VerifH_C06_wakeup,
	"VerifH_C06_fifo3":  VerifH_C06_fifo3,
	"VerifH_C05_L4_startHistory": VerifH_C05_L4_startHistory,
}
