//go:build verif

package croncontroller

import (
	"time"

	execution "github.com/furiko-io/furiko/apis/execution/v1alpha1"
	vz "github.com/furiko-io/furiko/pkg/zzverif"
	"github.com/furiko-io/furiko/pkg/zzverif/fakes"
)

// VerifH_C03_twoEvents: two schedule-relevant updates of one JobConfig reach the
// informer between two ticks. Whatever the intermediate version was, the schedule
// after the flush follows the JobConfig's current API state (the last version).
func VerifH_C03_twoEvents() {
	env := verifSetupCron(verifCronOpts{P: 1, K: 1, maxMissedHi: 2, warm: true})
	v := env.jcs[0]
	for _, e := range v.exprs {
		e.CheckLoc = false
	}
	newExpr := &vz.SymExpr{Name: "exprNew", NeverEnds: true}
	env.exprs[v.key+"|y"] = newExpr
	inf := env.worker.jobconfigInformer.Informer().(*fakes.SharedInformer)
	iw := NewInformerWorker(env.worker.Context, NewUpdateHandler(env.worker.Context))
	iw.Init()
	vz.Assert(len(inf.Handlers) == 1, "C03/handler-registered")
	h := inf.Handlers[0]

	// versions: 0 = expression x (the initial one), 1 = expression y, 2 = disabled, 3 = no schedule
	version := func(k int) *execution.JobConfig {
		jc := v.jc.DeepCopy()
		switch k {
		case 1:
			jc.Spec.Schedule.Cron = &execution.CronSchedule{Expression: "y", Timezone: v.jc.Spec.Schedule.Cron.Timezone}
		case 2:
			jc.Spec.Schedule.Disabled = true
		case 3:
			jc.Spec.Schedule = nil
		}
		return jc
	}
	a := vz.Choice("versionA", 4)
	b := vz.Choice("versionB", 4)
	vz.Assume(a != 0 && b != a)
	jcA, jcB := version(a), version(b)
	h.OnUpdate(v.jc, jcA)
	h.OnUpdate(jcA, jcB)
	env.lister.Items = []*execution.JobConfig{jcB}

	nowF := vz.Instant("nowF")
	env.verifClock(nowF, 16)
	before := len(env.rec.enq)
	env.worker.Work()
	p1, in1 := env.worker.schedule.VerifSearch(v.key)
	scheduled := b == 0 || b == 1
	if !scheduled {
		vz.Cover("ends-unscheduled")
		vz.Assert(!in1, "C03/stops-being-scheduled")
		vz.Assert(len(env.rec.enq) == before, "C03/no-fire-after-disable-or-delete")
	} else {
		ended := false
		if b == 0 {
			for _, e := range v.exprs {
				ended = vz.Or(ended, e.Ended())
			}
		}
		vz.Assert(vz.Or(in1, ended), "C03/created-or-changed-is-scheduled")
		if in1 {
			vz.Assert(time.Unix(int64(p1), 0).After(nowF), "C03/nothing-back-dated-before-the-change")
			vz.Assert(len(env.rec.enq) == before, "C03/no-fire-in-the-flush-tick")
			if b == 1 {
				vz.Cover("ends-on-new-expression")
				vz.Assert(newExpr.Returned(time.Unix(int64(p1), 0)), "C03/new-schedule-only")
			} else {
				vz.Cover("ends-on-old-expression")
				vz.Assert(v.returned(time.Unix(int64(p1), 0)), "C03/current-schedule-only")
			}
		}
	}
	now2 := vz.Instant("now2")
	vz.Assume(!now2.Before(nowF))
	env.verifClock(now2, 16)
	mark := len(env.rec.enq)
	env.worker.Work()
	for _, e := range env.rec.enq[mark:] {
		vz.Assert(scheduled, "C03/no-fire-after-disable-or-delete")
		vz.Assert(e.ts.After(nowF), "C03/nothing-back-dated-before-the-change")
		if b == 1 {
			vz.Assert(newExpr.Returned(e.ts), "C03/new-schedule-only")
		}
		if b == 0 {
			vz.Assert(v.returned(e.ts), "C03/current-schedule-only")
		}
		vz.Cover("fired-after-two-events")
	}
}
