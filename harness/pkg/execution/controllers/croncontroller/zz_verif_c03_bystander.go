//go:build verif

package croncontroller

import (
	"time"

	"k8s.io/client-go/tools/cache"

	execution "github.com/furiko-io/furiko/apis/execution/v1alpha1"
	vz "github.com/furiko-io/furiko/pkg/zzverif"
	"github.com/furiko-io/furiko/pkg/zzverif/fakes"
)

// VerifH_C03_bystander: two JobConfigs share the heap (possibly one name in two
// namespaces). One of them receives a schedule-relevant event (expression
// change / disable / schedule removed / delete / enable); the tick that
// flushes the event must leave the *other* JobConfig exactly where it was: a
// pending time that is due still fires (first, at its pending time - no
// re-basing, no lost catch-up), one that is not due keeps its heap priority, and
// one that was not scheduled stays unscheduled. "Follows create/update/delete"
// is a statement about the JobConfig the event is about, nobody else.
func VerifH_C03_bystander() {
	env := verifSetupCron(verifCronOpts{P: 2, K: 1, maxMissedHi: 2, sameName: true, warm: true})
	v, o := env.jcs[0], env.jcs[1]
	for _, jc := range env.jcs {
		for _, e := range jc.exprs {
			e.CheckLoc = false
		}
	}
	newExpr := &vz.SymExpr{Name: "exprNew", NeverEnds: true}
	env.exprs[v.key+"|y"] = newExpr
	inf := env.worker.jobconfigInformer.Informer().(*fakes.SharedInformer)
	iw := NewInformerWorker(env.worker.Context, NewUpdateHandler(env.worker.Context))
	iw.Init()
	vz.Assert(len(inf.Handlers) == 1, "C03/handler-registered")
	h := inf.Handlers[0]

	oldJC := v.jc
	newJC := oldJC.DeepCopy()
	kind := vz.Choice("event", 5)
	scheduledAfter := true
	switch kind {
	case 0: // expression changed
		newJC.Spec.Schedule.Cron = &execution.CronSchedule{Expression: "y", Timezone: oldJC.Spec.Schedule.Cron.Timezone}
	case 1: // disabled
		newJC.Spec.Schedule.Disabled = true
		scheduledAfter = false
	case 2: // schedule removed
		newJC.Spec.Schedule = nil
		scheduledAfter = false
	case 3: // deleted
		scheduledAfter = false
	case 4: // enabled
		vz.Assume(!v.inHeap)
		oldJC.Spec.Schedule.Disabled = true
	}
	if kind == 3 {
		env.lister.Items = []*execution.JobConfig{o.jc}
		if vz.Bool("tombstone") {
			h.OnDelete(cache.DeletedFinalStateUnknown{Key: v.key, Obj: oldJC})
		} else {
			h.OnDelete(oldJC)
		}
	} else {
		env.lister.Items = []*execution.JobConfig{newJC, o.jc}
		h.OnUpdate(oldJC, newJC)
	}

	nowF := vz.Instant("nowF")
	env.verifClock(nowF, 2*(env.maxCount+2)+4)
	oldPrio, hadOld := env.worker.schedule.VerifSearch(o.key)
	vz.Assert(hadOld == o.inHeap, "C03/bystander/setup")
	env.worker.Work()
	p1, in1 := env.worker.schedule.VerifSearch(o.key)

	var firedO []time.Time
	for _, e := range env.rec.enq {
		if e.key == o.key {
			firedO = append(firedO, e.ts)
		} else {
			// the JobConfig the event is about: nothing fires in the flush tick for a
			// JobConfig that is no longer scheduled
			vz.Assert(scheduledAfter, "C03/no-fire-after-disable-or-delete")
		}
	}
	switch {
	case !o.inHeap:
		vz.Assert(len(firedO) == 0, "C03/bystander/unscheduled-stays-unscheduled")
		vz.Assert(!in1, "C03/bystander/unscheduled-stays-unscheduled")
		vz.Cover("bystander-unscheduled")
	case o.prio.After(nowF):
		vz.Assert(len(firedO) == 0, "C03/bystander/not-due-does-not-fire")
		vz.Assert(in1 && p1 == oldPrio, "C03/bystander/pending-time-kept")
		vz.Cover("bystander-not-due")
	default:
		vz.Assert(len(firedO) >= 1, "C03/bystander/due-time-still-fires")
		if len(firedO) >= 1 {
			vz.Assert(firedO[0].Equal(o.prio), "C03/bystander/due-time-still-fires")
		}
		if in1 {
			vz.Assert(time.Unix(int64(p1), 0).After(nowF), "C03/bystander/next-time-in-future")
			vz.Assert(o.returned(time.Unix(int64(p1), 0)), "C03/bystander/next-time-is-its-own-match")
		}
		vz.Cover("bystander-due")
	}
	// the JobConfig the event was about ends where its new state says
	_, inV := env.worker.schedule.VerifSearch(v.key)
	if !scheduledAfter && kind != 3 {
		vz.Assert(!inV, "C03/stops-being-scheduled")
	}
	if scheduledAfter {
		// (an expression with no occurrence left has nothing to be scheduled for)
		ended := newExpr.Ended()
		if kind == 4 {
			ended = false
			for _, e := range v.exprs {
				ended = vz.Or(ended, e.Ended())
			}
		}
		vz.Assert(vz.Or(inV, ended), "C03/created-or-changed-is-scheduled")
	}
}
