//go:build verif

package croncontroller

var verifHarnesses = map[string]func(){
	"VerifH_C01_L2_work":  VerifH_C01_L2_work,
	"VerifH_C01_L2_work2": VerifH_C01_L2_work2,
	"VerifH_C01_L2_workSlow": VerifH_C01_L2_workSlow,
	"VerifH_C01_L2_workMulti": VerifH_C01_L2_workMulti,
	"VerifH_C03_events":        VerifH_C03_events,
	"VerifH_C03_twoEvents":     VerifH_C03_twoEvents,
	"VerifH_C03_bystander":     VerifH_C03_bystander,
	"VerifH_C03_listForm":      VerifH_C03_listForm,
	"VerifH_C02_L1_naming":     VerifH_C02_L1_naming,
	"VerifH_C02_L2_idempotent": VerifH_C02_L2_idempotent,
	"VerifH_C04_L2_restart": VerifH_C04_L2_restart,
}
