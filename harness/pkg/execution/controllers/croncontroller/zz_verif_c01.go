//go:build verif

package croncontroller

import (
	"time"

	metav1 "k8s.io/apimachinery/pkg/apis/meta/v1"
	"k8s.io/utils/pointer"

	configv1alpha1 "github.com/furiko-io/furiko/apis/config/v1alpha1"
	execution "github.com/furiko-io/furiko/apis/execution/v1alpha1"
	"github.com/furiko-io/furiko/pkg/core/tzutils"
	"github.com/furiko-io/furiko/pkg/execution/util/cron"
	"github.com/furiko-io/furiko/pkg/execution/util/cronschedule"
	"github.com/furiko-io/furiko/pkg/utils/heap"
	vz "github.com/furiko-io/furiko/pkg/zzverif"
	"github.com/furiko-io/furiko/pkg/zzverif/fakes"
)

type verifEnq struct {
	key string
	ts  time.Time
}

type verifEnqueueRecorder struct{ enq []verifEnq }

func (r *verifEnqueueRecorder) EnqueueJobConfig(jc *execution.JobConfig, ts time.Time) error {
	r.enq = append(r.enq, verifEnq{key: jc.Namespace + "/" + jc.Name, ts: ts})
	return nil
}

// one symbolic JobConfig with its ghost bookkeeping
type verifJC struct {
	jc       *execution.JobConfig
	key      string
	exprs    []*vz.SymExpr
	hasW     bool
	w        time.Time
	inHeap   bool
	inLister bool
	last     time.Time // everything <= last is accounted for
	prio     time.Time // heap priority = Next(last), capped by notAfter
	hasNBF   bool
	nbf      time.Time
	hasNAF   bool
	naf      time.Time
	loc      *time.Location
}

type verifCronEnv struct {
	lastRead time.Time
	jcs      []*verifJC
	rec      *verifEnqueueRecorder
	worker   *CronWorker
	lister   *fakes.JobConfigLister
	cfg      *configv1alpha1.CronExecutionConfig
	maxCount int
	locs     map[string]*time.Location
	exprs    map[string]*vz.SymExpr
}

var verifKeys = []string{"a", "b", "c"}

// verifSetupCron builds an arbitrary valid schedule of P JobConfigs: each is in
// the heap with a symbolic priority prio_j > last_j that is tied to its cron
// expression by seeding the contract stub with Next(last_j) = prio_j.
type verifCronOpts struct {
	P, K        int
	witness     bool
	varyTZ      bool // timezone from spec / config default / controller fallback
	varyLister  bool // the lister may have lost a JobConfig that is still in the heap
	varyWindow  bool // notBefore / notAfter
	maxMissedHi int64
	unsetMax    bool // also explore maxMissedSchedules unset (default 5)
	mayEnd      bool // an expression may have no further match (zero time)
	sameName    bool // the second JobConfig may share its name with the first, in another namespace
	warm        bool // the heap entries were produced by the real Bump (whatever Bump remembers is in place)
}

func verifSetupCron(o verifCronOpts) *verifCronEnv {
	P, K, withWitness := o.P, o.K, o.witness
	env := &verifCronEnv{rec: &verifEnqueueRecorder{}, lister: &fakes.JobConfigLister{}, locs: map[string]*time.Location{}, exprs: map[string]*vz.SymExpr{}}
	env.cfg = &configv1alpha1.CronExecutionConfig{}
	env.maxCount = 5
	if !o.unsetMax || vz.Bool("hasMaxMissed") {
		m := vz.IntRange("maxMissed", 1, o.maxMissedHi)
		env.cfg.MaxMissedSchedules = pointer.Int64(m)
		env.maxCount = int(vz.Concretize(m, 1, o.maxMissedHi))
	}
	defaultTZ := ""
	if o.varyTZ {
		defaultTZ = vz.Pick("defaultTZ", "", "Asia/Singapore")
		if defaultTZ != "" {
			env.cfg.DefaultTimezone = pointer.String(defaultTZ)
		} else if vz.Bool("defaultTZempty") {
			env.cfg.DefaultTimezone = pointer.String("")
		}
	}
	// timezone stub: one Location object per distinct string
	tzutils.VerifHook_ParseTimezone = func(val string) (*time.Location, error) {
		if l, ok := env.locs[val]; ok {
			return l, nil
		}
		l := time.FixedZone(val, 0)
		env.locs[val] = l
		return l, nil
	}
	cron.VerifParseHook = func(p *cron.Parser, line, hashID string) (cron.Expression, error) {
		return env.exprs[hashID+"|"+line], nil
	}
	var items []*heap.Item
	for j := 0; j < P; j++ {
		ns, name := "ns", verifKeys[j]
		if o.sameName && j == 1 && vz.Bool("sameNameOtherNamespace") {
			// two JobConfigs that share a name in different namespaces are unrelated
			ns, name = "ns2", verifKeys[0]
			vz.Cover("same-name-two-namespaces")
		}
		v := &verifJC{key: ns + "/" + name}
		v.jc = &execution.JobConfig{}
		v.jc.Namespace = ns
		v.jc.Name = name
		cs := &execution.CronSchedule{Expression: "x"}
		if K > 1 {
			cs = &execution.CronSchedule{Expressions: []string{"x", "y"}}
		}
		tz := ""
		if o.varyTZ {
			tz = vz.Pick("tz", "", "America/New_York")
		}
		cs.Timezone = tz
		eff := tz
		if eff == "" {
			eff = defaultTZ
		}
		if eff == "" {
			eff = "UTC"
		}
		v.jc.Spec.Schedule = &execution.ScheduleSpec{Cron: cs}
		if o.varyWindow && vz.Bool("hasConstraints") {
			c := &execution.ScheduleContraints{}
			if vz.Bool("hasNotBefore") {
				v.hasNBF = true
				v.nbf = vz.Instant("notBefore")
				t := metav1.NewTime(v.nbf)
				c.NotBefore = &t
			}
			if vz.Bool("hasNotAfter") {
				v.hasNAF = true
				v.naf = vz.Instant("notAfter")
				t := metav1.NewTime(v.naf)
				c.NotAfter = &t
			}
			v.jc.Spec.Schedule.Constraints = c
		}
		l, _ := tzutils.ParseTimezone(eff)
		v.loc = l
		for k := 0; k < K; k++ {
			line := []string{"x", "y"}[k]
			e := &vz.SymExpr{Name: "expr" + verifKeys[j] + line, NeverEnds: !(vz.Thorough() || o.mayEnd), ExpectLoc: l, CheckLoc: true}
			v.exprs = append(v.exprs, e)
			env.exprs[v.key+"|"+line] = e
		}
		if withWitness {
			// one arbitrary instant that matches (at least) one of the expressions
			v.hasW = true
			v.w = vz.InstantSec("w")
			e := v.exprs[vz.Choice("wExpr", K)]
			e.HasW = true
			e.W = v.w
		}
		v.inLister = !o.varyLister || vz.Bool("inLister")
		if v.inLister {
			env.lister.Items = append(env.lister.Items, v.jc)
		}
		v.inHeap = vz.Bool("inHeap")
		if v.inHeap {
			v.last = vz.InstantSec("last")
			v.prio = vz.InstantSec("prio")
			vz.Assume(v.prio.After(v.last))
			if v.hasNAF {
				vz.Assume(!v.prio.After(v.naf))
			}
			if v.hasNBF {
				vz.Assume(!v.prio.Before(v.nbf))
			}
			// prio = earliest Next(last) over the expressions
			which := vz.Choice("prioExpr", K)
			for k, e := range v.exprs {
				if k == which {
					e.Seed(v.last, v.prio)
				} else {
					n := vz.InstantSec("seedNext")
					vz.Assume(!n.Before(v.prio))
					e.Seed(v.last, n)
				}
			}
			items = append(items, heap.NewItem(v.key, int(v.prio.Unix())))
		}
		env.jcs = append(env.jcs, v)
	}
	Clock = fakes.Clock{}
	ctx := &Context{
		Context:           &fakes.Context{Cfg: &fakes.Configs{CronCfg: env.cfg}},
		jobconfigInformer: &fakes.JobConfigInformer{Inf: &fakes.SharedInformer{}, L: env.lister},
		updatedConfigs:    make(chan *execution.JobConfig, 16),
	}
	env.worker = &CronWorker{Context: ctx, handler: env.rec}
	env.worker.schedule = cronschedule.VerifNewSchedule(items, ctx.Configs(), Clock)
	if o.warm {
		// An entry of the heap got there through Schedule.Bump in some earlier pass:
		// replay that call (from `last` it reproduces the pending time, by the seeded
		// contract) so that any state Bump keeps besides the heap is in place as well.
		for _, v := range env.jcs {
			if v.inHeap {
				n, err := env.worker.schedule.Bump(v.jc, v.last)
				vz.Assert(err == nil && n.Equal(v.prio), "C03/setup/warm-bump-reproduces-the-pending-time")
				p, ok := env.worker.schedule.VerifSearch(v.key)
				vz.Assert(ok && p == int(v.prio.Unix()), "C03/setup/warm-bump-reproduces-the-pending-time")
			}
		}
	}
	return env
}

func b2i(b bool) int64 {
	if b {
		return 1
	}
	return 0
}

func (v *verifJC) returned(ts time.Time) bool {
	r := false
	for _, e := range v.exprs {
		r = vz.Or(r, e.Returned(ts))
	}
	return r
}

// verifClock installs a clock that reads `now` and bounds the number of
// readings in one pass (a pass that keeps polling is a livelock, reported as a
// violation instead of an unwinding failure).
func (env *verifCronEnv) verifClock(now time.Time, maxReads int) {
	reads := 0
	vz.NowFn = func() time.Time {
		reads++
		vz.Assert(reads <= maxReads, "C01/L2/pass-terminates")
		return now
	}
}

// verifCheckPass asserts the per-pass safety and completeness conditions.
func (env *verifCronEnv) verifCheckPass(now time.Time) {
	for _, v := range env.jcs {
		count := 0
		prev := v.last
		wFired := false
		var lastFired time.Time
		for _, e := range env.rec.enq {
			if e.key != v.key {
				continue
			}
			count++
			vz.Assert(v.inHeap && v.inLister, "C01/L2/only-scheduled-configs-fire")
			vz.Assert(!e.ts.After(now), "C01/L2/never-early")
			vz.Assert(e.ts.After(prev), "C01/L2/strictly-increasing-after-last")
			vz.Assert(v.returned(e.ts), "C01/L2/fires-only-matches")
			if v.hasNBF {
				vz.Assert(!e.ts.Before(v.nbf), "C01/L2/notBefore")
			}
			if v.hasNAF {
				vz.Assert(!e.ts.After(v.naf), "C01/L2/notAfter")
			}
			prev = e.ts
			lastFired = e.ts
			if v.hasW {
				wFired = vz.Or(wFired, e.ts.Equal(v.w))
			}
		}
		vz.Assert(count <= env.maxCount, "C01/L2/cap-never-exceeded")
		if !(v.inHeap && v.inLister) {
			continue
		}
		// the pending priority itself is a due match: it fires, whatever other JobConfigs did in this pass
		if !v.prio.After(now) {
			vz.Assert(count >= 1, "C01/L2/due-priority-fires")
			vz.Cover("due-priority")
		}
		capHit := count >= env.maxCount
		inWin := true
		if v.hasNBF {
			inWin = vz.And(inWin, !v.w.Before(v.nbf))
		}
		if v.hasNAF {
			inWin = vz.And(inWin, !v.w.After(v.naf))
		}
		if v.hasW {
			w := v.w
			due := vz.And(vz.And(w.After(v.last), !w.After(now)), inWin)
			if !capHit {
				// every due match fired
				vz.Assert(vz.Implies(due, wFired), "C01/L2/every-due-time-fires")
			} else {
				// the ones fired are the earliest: no due match at or before the last fired one was skipped
				vz.Assert(vz.Implies(vz.And(due, !w.After(lastFired)), wFired), "C01/L2/earliest-first-under-cap")
				vz.Cover("cap-hit")
			}
		}
		// post-state: next priority is in the future ("resumes from the present"), tied to the expression
		if p, ok := env.worker.schedule.VerifSearch(v.key); ok {
			pt := time.Unix(int64(p), 0)
			vz.Assert(pt.After(now), "C01/L2/post-priority-in-future")
			vz.Assert(v.returned(pt), "C01/L2/post-priority-is-a-match")
			if v.hasNAF {
				vz.Assert(!pt.After(v.naf), "C01/L2/post-priority-within-notAfter")
			}
			if v.hasW {
				// nothing due is left behind un-fired below the new priority unless the cap was hit
				w := v.w
				if !capHit {
					vz.Assert(vz.Implies(vz.And(vz.And(w.After(v.last), w.Before(pt)), inWin), wFired), "C01/L2/no-gap-before-next-priority")
				}
			}
		}
		if count > 0 {
			vz.Cover("fired")
		}
		if count > 1 {
			vz.Cover("fired-twice")
		}
	}
}

// VerifH_C01_L2_work: one Work() pass from an arbitrary valid schedule at an
// arbitrary clock value (instantaneous pass).
func VerifH_C01_L2_work() {
	P := 1
	env := verifSetupCron(verifCronOpts{P: P, K: 1, witness: true, varyTZ: true, varyLister: true, varyWindow: true, maxMissedHi: 2 + b2i(vz.Thorough()), unsetMax: vz.Thorough()})
	now := vz.Instant("now")
	env.verifClock(now, P*(env.maxCount+2)+2)
	env.worker.Work()
	env.verifCheckPass(now)
}

// VerifH_C01_L2_workMulti: one JobConfig with two cron lines; the heap priority
// is the earlier of the two next matches.
func VerifH_C01_L2_workMulti() {
	env := verifSetupCron(verifCronOpts{P: 1, K: 2, witness: true, varyWindow: vz.Thorough(), maxMissedHi: 2, mayEnd: true})
	now := vz.Instant("now")
	env.verifClock(now, (env.maxCount+2)+2)
	env.worker.Work()
	env.verifCheckPass(now)
}

// VerifH_C01_L2_work2: two JobConfigs, no completeness witness (safety only).
func VerifH_C01_L2_work2() {
	env := verifSetupCron(verifCronOpts{P: 2, K: 1, witness: vz.Thorough(), maxMissedHi: 2, sameName: true})
	now := vz.Instant("now")
	env.verifClock(now, 2*(env.maxCount+2)+2)
	env.worker.Work()
	env.verifCheckPass(now)
}

// verifClock2: the clock reads `now` for the first `after` readings and `later`
// from then on (a pass that is slower than the gap to the next match). Work()
// reads the clock once at its start and once per Pop: between two Pop readings
// the pending priority of the (single) JobConfig must have moved strictly
// forward, otherwise the loop pops the same time for ever. Passes longer than
// maxReads readings are cut (bound).
func (env *verifCronEnv) verifClock2(now, later time.Time, after, maxReads int) {
	reads := 0
	prev, hadPrev := 0, false
	key := env.jcs[0].key
	vz.NowFn = func() time.Time {
		reads++
		if reads > maxReads {
			vz.Cover("pass-longer-than-bound")
			vz.Assume(false)
		}
		if reads >= 2 {
			p, ok := env.worker.schedule.VerifSearch(key)
			if ok && hadPrev {
				vz.Assert(p > prev, "C01/L2/pass-makes-progress")
			}
			prev, hadPrev = p, ok
		}
		if reads > after {
			env.lastRead = later
			return later
		}
		env.lastRead = now
		return now
	}
}

// VerifH_C01_L2_workSlow: one Work() pass during which the clock moves on (the
// pass starts at `now`; from some reading on the clock shows `later`). The pass
// keeps making progress, fires nothing early or twice, and leaves the next
// priority in the future of the last clock reading.
func VerifH_C01_L2_workSlow() {
	env := verifSetupCron(verifCronOpts{P: 1, K: 1, witness: false, maxMissedHi: 2})
	now := vz.Instant("now")
	later := vz.Instant("later")
	vz.Assume(!later.Before(now))
	after := 1 + vz.Choice("clockMovesAfterReading", 4)
	env.verifClock2(now, later, after, 10)
	env.worker.Work()
	if env.lastRead.After(now) {
		vz.Cover("clock-moved")
	}
	// (judged against the last clock reading the pass made: what became due after it is the next pass's business)
	env.verifCheckPass(env.lastRead)
}
