//go:build verif

package croncontroller

import (
	"context"
	"time"

	kerrors "k8s.io/apimachinery/pkg/api/errors"
	metav1 "k8s.io/apimachinery/pkg/apis/meta/v1"
	"k8s.io/apimachinery/pkg/labels"
	"k8s.io/utils/pointer"

	configv1alpha1 "github.com/furiko-io/furiko/apis/config/v1alpha1"
	executiongroup "github.com/furiko-io/furiko/apis/execution"
	execution "github.com/furiko-io/furiko/apis/execution/v1alpha1"
	"github.com/furiko-io/furiko/pkg/execution/stores/activejobstore"
	"github.com/furiko-io/furiko/pkg/execution/util/jobconfig"
	executionlisters "github.com/furiko-io/furiko/pkg/generated/listers/execution/v1alpha1"
	"github.com/furiko-io/furiko/pkg/utils/meta"
	vz "github.com/furiko-io/furiko/pkg/zzverif"
	"github.com/furiko-io/furiko/pkg/zzverif/fakes"
)

// (the last name is 60 characters long: with the 11-character "-<unix seconds>" suffix the
// Job name exceeds the 63-character label limit, the region where a scheme might shorten names)
var verifJCNames = []string{"a", "a.b", "a-1", "a.1", "a123456789b123456789c123456789d123456789e123456789f123456789"}

func verifJobConfig(name string) *execution.JobConfig {
	jc := &execution.JobConfig{}
	jc.Namespace = "ns"
	jc.Name = name
	jc.UID = "uid-" + "x"
	return jc
}

// VerifH_C02_L1_naming: the Job name is a function of (JobConfig name, schedule
// time in seconds) only and distinguishes distinct seconds; the work-queue key
// round-trips; the created Job records the schedule time and its owner.
func VerifH_C02_L1_naming() {
	name := vz.Pick("jcName", verifJCNames...)
	t1 := vz.Instant("t1")
	t2 := vz.Instant("t2")
	n1 := jobconfig.GenerateName(name, t1)
	n2 := jobconfig.GenerateName(name, t2)
	vz.Assert((n1 == n2) == (t1.Unix() == t2.Unix()), "C02/L1/name-injective-in-seconds")
	// ... and of nothing else: another controller process (after a restart) computes the same name
	nOther := vz.OtherProcess("name", func() string { return jobconfig.GenerateName(name, t1) })
	vz.Assert(nOther == n1, "C02/L1/name-is-the-same-in-every-process")
	if t1.Unix() == t2.Unix() && t1.Nanosecond() != t2.Nanosecond() {
		vz.Cover("same-second-different-instant")
	}
	// queue key round trip
	key := JoinJobConfigKeyName(name, t1)
	gotName, gotTS, err := SplitJobConfigKeyName(key)
	vz.Assert(err == nil, "C02/L1/key-splits")
	vz.Assert(gotName == name, "C02/L1/key-roundtrip-name")
	vz.Assert(gotTS.Unix() == t1.Unix() && gotTS.Nanosecond() == 0, "C02/L1/key-roundtrip-time")
	vz.Observe("gotTS", gotTS.Unix())
	// the Job object
	jc := verifJobConfig(name)
	if vz.Bool("templateAnnotations") {
		jc.Spec.Template.Annotations = map[string]string{"user": "x", jobconfig.AnnotationKeyScheduleTime: "12"}
		jc.Spec.Template.Labels = map[string]string{"l": "y", jobconfig.LabelKeyJobConfigUID: "spoofed"}
	}
	rj, err := jobconfig.NewJobFromJobConfig(jc, execution.JobTypeScheduled, t1)
	vz.Assert(err == nil, "C02/L1/job-instantiates")
	vz.Assert(rj.Name == n1, "C02/L1/job-name-is-generated-name")
	st := jobconfig.GetLabelScheduleTime(rj)
	vz.Assert(st != nil && st.Unix() == t1.Unix(), "C02/L1/records-schedule-time")
	vz.Assert(rj.Labels[jobconfig.LabelKeyJobConfigUID] == string(jc.UID), "C02/L1/uid-label")
	ref := metav1.GetControllerOf(rj)
	vz.Assert(ref != nil && ref.UID == jc.UID && ref.Name == jc.Name && ref.Kind == execution.KindJobConfig, "C02/L1/owned-by-jobconfig")
	vz.Assert(len(rj.OwnerReferences) == 1, "C02/L1/exactly-one-owner")
	vz.Assert(meta.ContainsFinalizer(rj.Finalizers, executiongroup.DeleteDependentsFinalizer), "C02/L1/finalizer")
	// a second Job built from the same (cached) JobConfig for another time leaves the first
	// Job's record and the JobConfig itself untouched
	nAnn := len(jc.Spec.Template.Annotations)
	rj2, err2 := jobconfig.NewJobFromJobConfig(jc, execution.JobTypeScheduled, t2)
	vz.Assert(err2 == nil, "C02/L1/job-instantiates")
	st1 := jobconfig.GetLabelScheduleTime(rj)
	vz.Assert(st1 != nil && st1.Unix() == t1.Unix(), "C02/L1/first-job-still-records-its-schedule-time")
	st2 := jobconfig.GetLabelScheduleTime(rj2)
	vz.Assert(st2 != nil && st2.Unix() == t2.Unix(), "C02/L1/records-schedule-time")
	vz.Assert(len(jc.Spec.Template.Annotations) == nAnn, "C02/L1/jobconfig-not-modified-by-instantiation")
	if nAnn > 0 {
		vz.Assert(jc.Spec.Template.Annotations[jobconfig.AnnotationKeyScheduleTime] == "12", "C02/L1/jobconfig-not-modified-by-instantiation")
	}
}

type verifCronRecorder struct{ created, failed, skipped int }

func (r *verifCronRecorder) CreatedJob(ctx context.Context, jc *execution.JobConfig, rj *execution.Job) { r.created++ }
func (r *verifCronRecorder) CreateJobFailed(ctx context.Context, jc *execution.JobConfig, rj *execution.Job, msg string) {
	r.failed++
}
func (r *verifCronRecorder) SkippedJobSchedule(ctx context.Context, jc *execution.JobConfig, t time.Time, msg string) {
	r.skipped++
}

// a Job lister whose answer for a name is an arbitrary (possibly stale) cache view
type verifStaleJobLister struct {
	executionlisters.JobLister
	executionlisters.JobNamespaceLister
}

func (l *verifStaleJobLister) Jobs(ns string) executionlisters.JobNamespaceLister { return l }
func (l *verifStaleJobLister) List(selector labels.Selector) ([]*execution.Job, error) {
	return nil, nil
}
func (l *verifStaleJobLister) Get(name string) (*execution.Job, error) {
	switch vz.Choice("cache.answer", 2) {
	case 0:
		return nil, kerrors.NewNotFound(execution.Resource("job"), name)
	}
	rj := &execution.Job{}
	rj.Name = name
	return rj, nil
}

// VerifH_C02_L2_idempotent: the same (JobConfig, schedule time) requested twice
// (duplicate firing, retry after an error, catch-up after restart) with
// arbitrary cache answers and create outcomes yields at most one Job, always
// under the same name.
func VerifH_C02_L2_idempotent() {
	name := vz.Pick("jcName", "a", "a.b")
	t := vz.InstantSec("t")
	now := vz.Instant("now")
	vz.NowFn = func() time.Time { return now }
	jc := verifJobConfig(name)
	switch vz.Choice("policy", 3) {
	case 1:
		jc.Spec.Concurrency.Policy = execution.ConcurrencyPolicyForbid
	case 2:
		jc.Spec.Concurrency.Policy = execution.ConcurrencyPolicyEnqueue
	}
	store := activejobstore.VerifNewStore()
	store.VerifSetCount(string(jc.UID), vz.IntRange("active", 0, 2))
	cfg := &configv1alpha1.JobConfigExecutionConfig{}
	if vz.Bool("hasMaxEnqueued") {
		cfg.MaxEnqueuedJobs = pointer.Int64(vz.IntRange("maxEnqueued", 0, 3))
		jc.Status.Queued = vz.IntRange("queued", 0, 3)
	}
	api := &fakes.API{}
	var existing []string // ghost API state: names of Jobs that exist
	has := func(n string) bool {
		for _, e := range existing {
			if e == n {
				return true
			}
		}
		return false
	}
	var names []string
	creates := 0
	failedNow := 0
	api.Decide = func(c *fakes.APICall) error {
		names = append(names, c.Name)
		if has(c.Name) {
			return fakes.ErrorOfKind(3, c.Name) // AlreadyExists: names are unique per namespace
		}
		if vz.Bool("create.fails") {
			failedNow++
			return fakes.ErrorOfKind([]int{0, 1, 2, 8}[vz.Choice("create.errKind", 4)], c.Name)
		}
		return nil
	}
	api.Apply = func(c *fakes.APICall) {
		existing = append(existing, c.Name)
		creates++
	}
	rec := &verifCronRecorder{}
	ctx := &Context{
		Context:           &fakes.Context{Cfg: &fakes.Configs{JobConfigCfg: cfg}},
		jobInformer:       &fakes.JobInformer{Inf: &fakes.SharedInformer{}, L: &verifStaleJobLister{}},
		jobconfigInformer: &fakes.JobConfigInformer{Inf: &fakes.SharedInformer{}, L: &fakes.JobConfigLister{Items: []*execution.JobConfig{jc}}},
	}
	r := NewReconciler(ctx, NewExecutionControl("verif", &fakes.ExecClient{A: api}, rec), rec, store, nil)
	key := JoinJobConfigKeyName(name, t)
	err1 := r.SyncOne(context.Background(), "ns", key, 0)
	failed1 := failedNow
	failedNow = 0
	err2 := r.SyncOne(context.Background(), "ns", key, 0)
	failed2 := failedNow
	// a create that failed for a reason that may pass (conflict, server error, timeout,
	// quota / forbidden-for-now) is reported, so that the work item is retried: the cron
	// worker never offers a past schedule time again, a swallowed failure loses the Job for good
	if failed1 > 0 {
		vz.Assert(err1 != nil, "C20/cron-create-failure-is-reported-for-retry")
		vz.Cover("create-failed")
	}
	if failed2 > 0 {
		vz.Assert(err2 != nil, "C20/cron-create-failure-is-reported-for-retry")
	}
	vz.Assert(creates <= 1, "C02/L2/at-most-one-job-per-schedule-time")
	want := jobconfig.GenerateName(name, t)
	for _, n := range names {
		vz.Assert(n == want, "C02/L2/every-create-uses-the-deterministic-name")
	}
	if creates == 1 {
		vz.Cover("created-once")
	}
	if len(names) == 2 {
		vz.Cover("second-attempt-refused-by-api")
	}
}
