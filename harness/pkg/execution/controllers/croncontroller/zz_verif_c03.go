//go:build verif

package croncontroller

import (
	"time"

	metav1 "k8s.io/apimachinery/pkg/apis/meta/v1"
	"k8s.io/client-go/tools/cache"

	execution "github.com/furiko-io/furiko/apis/execution/v1alpha1"
	vz "github.com/furiko-io/furiko/pkg/zzverif"
	"github.com/furiko-io/furiko/pkg/zzverif/fakes"
)

// VerifH_C03_events: from an arbitrary valid schedule, one informer event for a
// JobConfig (create / schedule change / disable / enable / remove schedule /
// status-only update / delete), delivered through the handlers the controller
// really registered, followed by two ticks.
func VerifH_C03_events() {
	env := verifSetupCron(verifCronOpts{P: 1, K: 1, maxMissedHi: 2, warm: true})
	v := env.jcs[0]
	for _, e := range v.exprs {
		e.CheckLoc = false
	}
	// the new expression a changed schedule refers to
	newExpr := &vz.SymExpr{Name: "exprNew", NeverEnds: true}
	env.exprs[v.key+"|y"] = newExpr
	inf := env.worker.jobconfigInformer.Informer().(*fakes.SharedInformer)
	iw := NewInformerWorker(env.worker.Context, NewUpdateHandler(env.worker.Context))
	iw.Init()
	vz.Assert(len(inf.Handlers) == 1, "C03/handler-registered")
	h := inf.Handlers[0]

	kind := vz.Choice("event", 10)
	oldJC := v.jc
	newJC := oldJC.DeepCopy()
	var newNAF time.Time
	hasNewNAF := false
	scheduledAfter := true // should the JobConfig be scheduled after the event?
	usesNew := false       // does it fire by the new expression?
	rebase := true         // must the next priority be recomputed from the flush time?
	switch kind {
	case 0: // created: a JobConfig the schedule has never seen
		vz.Assume(!v.inHeap)
		env.lister.Items = []*execution.JobConfig{newJC}
		h.OnAdd(newJC)
		vz.Finding("F03-1")
		vz.Cover("event-add")
	case 1: // cron expression changed
		newJC.Spec.Schedule.Cron = &execution.CronSchedule{Expression: "y", Timezone: oldJC.Spec.Schedule.Cron.Timezone}
		usesNew = true
		vz.Cover("event-expression-changed")
	case 2: // timezone changed
		newJC.Spec.Schedule.Cron = &execution.CronSchedule{Expression: "x", Timezone: "Europe/Paris"}
		vz.Cover("event-timezone-changed")
	case 3: // disabled
		newJC.Spec.Schedule.Disabled = true
		scheduledAfter = false
		vz.Cover("event-disabled")
	case 4: // enabled (was disabled, hence not in the heap)
		vz.Assume(!v.inHeap)
		oldJC.Spec.Schedule.Disabled = true
		vz.Cover("event-enabled")
	case 5: // schedule removed
		newJC.Spec.Schedule = nil
		scheduledAfter = false
		vz.Cover("event-schedule-removed")
	case 6: // status-only update: nothing about the schedule changes
		newJC.Status.Queued = 3
		rebase = false
		scheduledAfter = v.inHeap
		vz.Cover("event-status-only")
	case 7: // deleted
		scheduledAfter = false
		vz.Cover("event-deleted")
	case 8: // only the notAfter bound is added / tightened
		newNAF = vz.Instant("new.notAfter")
		hasNewNAF = true
		t := metav1.NewTime(newNAF)
		far := metav1.NewTime(time.Unix(1<<37, 0))
		oldJC.Spec.Schedule.Constraints = &execution.ScheduleContraints{NotAfter: &far}
		newJC.Spec.Schedule.Constraints = &execution.ScheduleContraints{NotAfter: &t}
		vz.Cover("event-notAfter-set")
	case 9: // the window is lifted: an expired JobConfig (not in the heap) must come back
		vz.Assume(!v.inHeap)
		old := metav1.NewTime(time.Unix(1, 0))
		oldJC.Spec.Schedule.Constraints = &execution.ScheduleContraints{NotAfter: &old}
		newJC.Spec.Schedule.Constraints = nil
		vz.Cover("event-window-lifted")
	}
	switch {
	case kind == 0:
	case kind == 7:
		env.lister.Items = nil
		if vz.Bool("tombstone") {
			h.OnDelete(cache.DeletedFinalStateUnknown{Key: v.key, Obj: oldJC})
		} else {
			h.OnDelete(oldJC)
		}
	default:
		env.lister.Items = []*execution.JobConfig{newJC}
		h.OnUpdate(oldJC, newJC)
	}
	if !v.inLister && kind != 0 && kind != 7 {
		// the lister now reflects the event
		v.inLister = true
	}
	// first tick after the event: the flush
	nowF := vz.Instant("nowF")
	env.verifClock(nowF, 12)
	before := len(env.rec.enq)
	oldPrio, hadOld := env.worker.schedule.VerifSearch(v.key)
	env.worker.Work()
	p1, in1 := env.worker.schedule.VerifSearch(v.key)
	if !scheduledAfter {
		if kind != 7 {
			// (a deleted JobConfig may linger in the heap until its next time, where the
			// lister no longer finds it: only the absence of firings is observable)
			vz.Assert(!in1, "C03/stops-being-scheduled")
		}
		vz.Assert(len(env.rec.enq) == before, "C03/no-fire-after-disable-or-delete")
	}
	if hasNewNAF {
		// the new window is in force from the flush on
		if in1 {
			vz.Assert(!time.Unix(int64(p1), 0).After(newNAF), "C03/new-window-in-force")
		}
	}
	if scheduledAfter && rebase && !hasNewNAF {
		// (an expression with no occurrence left has nothing to be scheduled for)
		ended := newExpr.Ended()
		if !usesNew {
			for _, e := range v.exprs {
				ended = vz.Or(ended, e.Ended())
			}
		}
		vz.Assert(vz.Or(in1, ended), "C03/created-or-changed-is-scheduled")
		if in1 {
			vz.Assert(time.Unix(int64(p1), 0).After(nowF), "C03/nothing-back-dated-before-the-change")
			vz.Assert(len(env.rec.enq) == before, "C03/no-fire-in-the-flush-tick")
			if usesNew {
				vz.Assert(newExpr.Returned(time.Unix(int64(p1), 0)), "C03/new-schedule-only")
			}
		}
	}
	if !rebase && hadOld {
		// a status-only update must not drop pending catch-up: whatever was due still fires
		fired := len(env.rec.enq) > before
		due := !time.Unix(int64(oldPrio), 0).After(nowF)
		vz.Assert(!due || fired || !v.inLister, "C03/status-only-update-keeps-pending-catch-up")
	}
	// second tick: whatever fires comes from the schedule in force
	now2 := vz.Instant("now2")
	vz.Assume(!now2.Before(nowF))
	env.verifClock(now2, 12)
	mark := len(env.rec.enq)
	env.worker.Work()
	for _, e := range env.rec.enq[mark:] {
		vz.Assert(scheduledAfter, "C03/no-fire-after-disable-or-delete")
		if rebase {
			vz.Assert(e.ts.After(nowF), "C03/nothing-back-dated-before-the-change")
		}
		if usesNew {
			vz.Assert(newExpr.Returned(e.ts), "C03/new-schedule-only")
			vz.Cover("fired-by-new-schedule")
		}
		if hasNewNAF {
			vz.Assert(!e.ts.After(newNAF), "C03/new-window-in-force")
		}
	}
}
