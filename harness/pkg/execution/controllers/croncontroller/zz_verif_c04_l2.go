//go:build verif

package croncontroller

import (
	"time"

	metav1 "k8s.io/apimachinery/pkg/apis/meta/v1"
	"k8s.io/utils/pointer"

	configv1alpha1 "github.com/furiko-io/furiko/apis/config/v1alpha1"
	execution "github.com/furiko-io/furiko/apis/execution/v1alpha1"
	"github.com/furiko-io/furiko/pkg/core/tzutils"
	"github.com/furiko-io/furiko/pkg/execution/util/cron"
	vz "github.com/furiko-io/furiko/pkg/zzverif"
	"github.com/furiko-io/furiko/pkg/zzverif/fakes"
)

// VerifH_C04_L2_restart: controller start (CronWorker.Init builds the schedule
// from the persisted JobConfig) followed by the first pass.
func VerifH_C04_L2_restart() {
	rec := &verifEnqueueRecorder{}
	lister := &fakes.JobConfigLister{}
	cfg := &configv1alpha1.CronExecutionConfig{}
	th := vz.IntRange("threshold", -1, 1<<20)
	cfg.MaxDowntimeThresholdSeconds = th
	thSecs := th
	if th <= 0 {
		thSecs = 300
	}
	maxCount := int64(5)
	if vz.Bool("hasMaxMissed") {
		maxCount = vz.IntRange("maxMissed", 1, 2)
		cfg.MaxMissedSchedules = pointer.Int64(maxCount)
		maxCount = vz.Concretize(maxCount, 1, 2)
	}
	loc := time.FixedZone("UTC", 0)
	tzutils.VerifHook_ParseTimezone = func(val string) (*time.Location, error) { return loc, nil }
	// (every evaluation of the expression happens in the JobConfig's effective timezone)
	expr := &vz.SymExpr{Name: "expr", NeverEnds: true, ExpectLoc: loc, CheckLoc: true}
	cron.VerifParseHook = func(p *cron.Parser, line, hashID string) (cron.Expression, error) { return expr, nil }
	start := vz.InstantNear("start")
	jc := &execution.JobConfig{}
	jc.Namespace = "ns"
	jc.Name = "a"
	jc.Spec.Schedule = &execution.ScheduleSpec{Cron: &execution.CronSchedule{Expression: "x"}}
	hasLS := vz.Bool("hasLastScheduled")
	var ls time.Time
	if hasLS {
		ls = vz.InstantSec("lastScheduled")
		vz.Assume(!ls.After(start)) // a recorded schedule time is not in the future
		t := metav1.NewTime(ls)
		jc.Status.LastScheduled = &t
	}
	hasLU := vz.Bool("hasLastUpdated")
	var lu time.Time
	if hasLU {
		lu = vz.InstantNear("lastUpdated")
		t := metav1.NewTime(lu)
		jc.Spec.Schedule.LastUpdated = &t
	}
	// an optional notAfter bound, and one arbitrary instant W that matches the expression
	hasNAF := vz.Bool("hasNotAfter")
	var naf time.Time
	if hasNAF {
		naf = vz.InstantNear("notAfter")
		t := metav1.NewTime(naf)
		jc.Spec.Schedule.Constraints = &execution.ScheduleContraints{NotAfter: &t}
	}
	hasNBF := vz.Bool("hasNotBefore")
	var nbf time.Time
	if hasNBF {
		nbf = vz.InstantNear("notBefore")
		t := metav1.NewTime(nbf)
		if jc.Spec.Schedule.Constraints == nil {
			jc.Spec.Schedule.Constraints = &execution.ScheduleContraints{}
		}
		jc.Spec.Schedule.Constraints.NotBefore = &t
	}
	w0 := vz.InstantSec("w")
	expr.HasW = true
	expr.W = w0
	lister.Items = []*execution.JobConfig{jc}
	Clock = fakes.Clock{}
	vz.NowFn = func() time.Time { return start }
	ctx := &Context{
		Context:           &fakes.Context{Cfg: &fakes.Configs{CronCfg: cfg}},
		jobconfigInformer: &fakes.JobConfigInformer{Inf: &fakes.SharedInformer{}, L: lister},
		updatedConfigs:    make(chan *execution.JobConfig, 16),
	}
	w := &CronWorker{Context: ctx, handler: rec}
	vz.Assert(w.Init() == nil, "C04/L2/init-succeeds")
	// first pass, at or after the start instant
	now := vz.InstantNear("now")
	vz.Assume(!now.Before(start))
	reads := 0
	vz.NowFn = func() time.Time {
		reads++
		vz.Assert(reads <= 16, "C04/L2/pass-terminates")
		return now
	}
	w.Work()
	vz.Assert(int64(len(rec.enq)) <= maxCount, "C04/L2/catch-up-capped")
	prev := time.Time{}
	for i, e := range rec.enq {
		vz.Assert(!e.ts.After(now), "C04/L2/never-early")
		vz.Assert(expr.Returned(e.ts), "C04/L2/only-matches")
		if i > 0 {
			vz.Assert(e.ts.After(prev), "C04/L2/increasing")
		}
		prev = e.ts
		if hasLS {
			vz.Assert(e.ts.After(ls), "C04/L2/never-at-or-before-lastScheduled")
			vz.Assert(e.ts.After(start.Add(-time.Duration(thSecs)*time.Second)), "C04/L2/not-older-than-tolerated-downtime")
			vz.Cover("caught-up")
		} else {
			vz.Assert(e.ts.After(start), "C04/L2/never-scheduled-not-backscheduled")
			vz.Cover("fresh-fired")
		}
		if hasLU {
			vz.Assert(e.ts.After(lu), "C04/L2/nothing-before-last-schedule-change")
		}
		if hasNAF {
			vz.Assert(!e.ts.After(naf), "C04/L2/notAfter")
		}
		if hasNBF {
			vz.Assert(!e.ts.Before(nbf), "C04/L2/notBefore")
		}
	}
	// completeness: a match that is still due after the restart (after the last recorded run,
	// inside the tolerated downtime, after the last schedule change, inside the window, not in
	// the future) is caught up, unless the per-pass cap was reached first
	due := vz.And(!w0.After(now), true)
	if hasLS {
		due = vz.And(due, vz.And(w0.After(ls), w0.After(start.Add(-time.Duration(thSecs)*time.Second))))
	} else {
		due = vz.And(due, w0.After(start))
	}
	if hasLU {
		due = vz.And(due, w0.After(lu))
	}
	if hasNAF {
		due = vz.And(due, !w0.After(naf))
	}
	if hasNBF {
		due = vz.And(due, w0.After(nbf))
		vz.Cover("notBefore-set")
	}
	fired := false
	for _, e := range rec.enq {
		fired = vz.Or(fired, e.ts.Equal(w0))
	}
	if int64(len(rec.enq)) < maxCount {
		vz.Assert(vz.Implies(due, fired), "C04/L2/due-time-is-caught-up")
		if hasNAF && hasLS {
			vz.Cover("window-and-history")
		}
	}
}
