//go:build verif

package croncontroller

import (
	"time"

	execution "github.com/furiko-io/furiko/apis/execution/v1alpha1"
	vz "github.com/furiko-io/furiko/pkg/zzverif"
	"github.com/furiko-io/furiko/pkg/zzverif/fakes"
)

// VerifH_C03_listForm: a JobConfig that uses the list form of the cron schedule
// (spec.schedule.cron.expressions = [x, y]) is edited: one line is replaced, the
// list shrinks to a different line, the list is replaced by the single-expression
// form, or the JobConfig is disabled and later re-enabled with a different list.
// After the flush the schedule follows the lines of the *current* list only, and
// every one of them counts.
func VerifH_C03_listForm() {
	env := verifSetupCron(verifCronOpts{P: 1, K: 2, maxMissedHi: 2, warm: true})
	v := env.jcs[0]
	for _, e := range v.exprs {
		e.CheckLoc = false
	}
	x := v.exprs[0]
	z := &vz.SymExpr{Name: "exprZ", NeverEnds: !vz.Thorough()}
	env.exprs[v.key+"|z"] = z
	inf := env.worker.jobconfigInformer.Informer().(*fakes.SharedInformer)
	iw := NewInformerWorker(env.worker.Context, NewUpdateHandler(env.worker.Context))
	iw.Init()
	vz.Assert(len(inf.Handlers) == 1, "C03/handler-registered")
	h := inf.Handlers[0]

	tz := v.jc.Spec.Schedule.Cron.Timezone
	newJC := v.jc.DeepCopy()
	cur := []*vz.SymExpr{z}
	kind := vz.Choice("edit", 4)
	switch kind {
	case 0: // second line replaced
		newJC.Spec.Schedule.Cron = &execution.CronSchedule{Expressions: []string{"x", "z"}, Timezone: tz}
		cur = []*vz.SymExpr{x, z}
		vz.Cover("list-line-replaced")
	case 1: // the list shrinks to one different line
		newJC.Spec.Schedule.Cron = &execution.CronSchedule{Expressions: []string{"z"}, Timezone: tz}
		vz.Cover("list-shrunk")
	case 2: // list form replaced by the single-expression form
		newJC.Spec.Schedule.Cron = &execution.CronSchedule{Expression: "z", Timezone: tz}
		vz.Cover("list-to-single")
	case 3: // disabled, a tick passes, re-enabled with a different list
		dis := v.jc.DeepCopy()
		dis.Spec.Schedule.Disabled = true
		h.OnUpdate(v.jc, dis)
		env.lister.Items = []*execution.JobConfig{dis}
		now0 := vz.Instant("now0")
		env.verifClock(now0, 16)
		before := len(env.rec.enq)
		env.worker.Work()
		_, in0 := env.worker.schedule.VerifSearch(v.key)
		vz.Assert(!in0, "C03/stops-being-scheduled")
		vz.Assert(len(env.rec.enq) == before, "C03/no-fire-after-disable-or-delete")
		newJC.Spec.Schedule.Cron = &execution.CronSchedule{Expressions: []string{"x", "z"}, Timezone: tz}
		cur = []*vz.SymExpr{x, z}
		h.OnUpdate(dis, newJC)
		env.lister.Items = []*execution.JobConfig{newJC}
		vz.Cover("list-changed-while-disabled")
	}
	if kind != 3 {
		h.OnUpdate(v.jc, newJC)
		env.lister.Items = []*execution.JobConfig{newJC}
	}
	returned := func(ts time.Time) bool {
		r := false
		for _, e := range cur {
			r = vz.Or(r, e.Returned(ts))
		}
		return r
	}
	marks := make([]int, len(cur))
	for i, e := range cur {
		marks[i] = len(e.Calls)
	}

	nowF := vz.Instant("nowF")
	env.verifClock(nowF, 16)
	before := len(env.rec.enq)
	env.worker.Work()
	p1, in1 := env.worker.schedule.VerifSearch(v.key)
	ended := false
	for _, e := range cur {
		ended = vz.Or(ended, e.Ended())
	}
	vz.Assert(vz.Or(in1, ended), "C03/created-or-changed-is-scheduled")
	vz.Assert(len(env.rec.enq) == before, "C03/no-fire-in-the-flush-tick")
	if in1 {
		pt := time.Unix(int64(p1), 0)
		vz.Assert(pt.After(nowF), "C03/nothing-back-dated-before-the-change")
		vz.Assert(returned(pt), "C03/new-schedule-only")
		for i, e := range cur {
			// every line of the current list was evaluated for the new pending time,
			// which is the earliest of their next matches
			vz.Assert(len(e.Calls) > marks[i], "C03/every-line-of-the-current-list-counts")
			for _, c := range e.Calls[marks[i]:] {
				if c.Has {
					vz.Assert(!pt.After(c.N), "C03/every-line-of-the-current-list-counts")
				}
			}
		}
	}
	now2 := vz.Instant("now2")
	vz.Assume(!now2.Before(nowF))
	env.verifClock(now2, 16)
	mark := len(env.rec.enq)
	env.worker.Work()
	for _, e := range env.rec.enq[mark:] {
		vz.Assert(e.ts.After(nowF), "C03/nothing-back-dated-before-the-change")
		vz.Assert(returned(e.ts), "C03/new-schedule-only")
		vz.Cover("fired-by-new-list")
	}
}
