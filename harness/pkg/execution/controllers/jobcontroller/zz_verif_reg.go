//go:build verif

package jobcontroller

var verifHarnesses = map[string]func(){
	"VerifH_C10_status": VerifH_C10_status,
}
