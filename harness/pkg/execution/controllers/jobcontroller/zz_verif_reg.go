//go:build verif

package jobcontroller

var verifHarnesses = map[string]func(){
	"VerifH_C10_status":    VerifH_C10_status,
	"VerifH_C10_decidedStopsRest": VerifH_C10_decidedStopsRest,
	"VerifH_C11_L2_stable": VerifH_C11_L2_stable,
	"VerifH_C08_create":    VerifH_C08_create,
	"VerifH_C20_jobcontroller": VerifH_C20_jobcontroller,
	"VerifH_C09_L1_adoption": VerifH_C09_L1_adoption,
	"VerifH_C09_L2_crash":    VerifH_C09_L2_crash,
	"VerifH_C08_blocked":   VerifH_C08_blocked,
	"VerifH_C12_deadlines": VerifH_C12_deadlines,
	"VerifH_C12_twoTasks":  VerifH_C12_twoTasks,
	"VerifH_C08_killing":   VerifH_C08_killing,
	"VerifH_C13_finalize":  VerifH_C13_finalize,
}
