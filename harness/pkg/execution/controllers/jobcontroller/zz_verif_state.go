//go:build verif

package jobcontroller

import (
	"time"

	metav1 "k8s.io/apimachinery/pkg/apis/meta/v1"
	"k8s.io/utils/pointer"

	executiongroup "github.com/furiko-io/furiko/apis/execution"
	execution "github.com/furiko-io/furiko/apis/execution/v1alpha1"
	jobutil "github.com/furiko-io/furiko/pkg/execution/util/job"
	"github.com/furiko-io/furiko/pkg/execution/tasks"
	"github.com/furiko-io/furiko/pkg/execution/util/parallel"
	"github.com/furiko-io/furiko/pkg/utils/ktime"
	vz "github.com/furiko-io/furiko/pkg/zzverif"
	"github.com/furiko-io/furiko/pkg/zzverif/fakes"
)

// ---- symbolic Job state shared by the jobcontroller harnesses ----

type verifRef struct {
	name        string
	pidx        int // position in the index list
	retry       int64
	created     time.Time
	hasRunning  bool
	running     time.Time
	hasFinished bool
	finished    time.Time
	result      execution.TaskResult
	hasDeleted  bool // DeletedStatus set on the ref
	// cache view
	inCache bool
	task    *fakes.Task
}

type verifJobOpts struct {
	maxRefs       int
	parallel      int  // 0 = never, 1 = symbolic choice, 2 = always (withCount 2)
	started       int  // 0 = symbolic, 1 = always started
	allowKill     bool // killTimestamp may be set
	allowAdmErr   bool // admission error annotation may be present
	allowDeletion bool // deletionTimestamp may be set
	allowTTL      bool
	maxAttemptsHi int64
	retryDelay    bool
	inv8          bool // assume the status.tasks invariant
	concreteTimes bool // task timestamps are fixed distinct instants (ordering not explored)
	symFinish     bool // ... except finish timestamps, which stay symbolic
	oneResult     bool // finished refs are Failed (result not explored)
	noRunning     bool // refs never carry a running timestamp
	preMarked     bool // an unfinished ref may already carry DeletedStatus=Killed (set before a delete)
	twoLive       bool // exactly two unfinished refs, one per parallel index (needs parallel: 2)
	killingRefs   bool // an unfinished ref may be recorded in state Killing (its task is being deleted)
}

func (o verifJobOpts) instant(name string, k int) time.Time {
	if o.concreteTimes {
		return time.Unix(int64(1000+k), 0)
	}
	return vz.InstantNear(name)
}

type verifJob struct {
	rj          *execution.Job
	indexes     []execution.ParallelIndex
	hashes      []string
	refs        []*verifRef
	started     bool
	hasKill     bool
	kill        time.Time
	admErr      bool
	deleted     bool
	hasFinal    bool
	maxAttempts int64
	delaySecs   int64
	strategyAny bool
	now         time.Time
}

func verifClock(now time.Time) {
	vz.NowFn = func() time.Time { return now }
	ktime.Clock = fakes.Clock{}
}

func verifDrawJobState(o verifJobOpts) *verifJob {
	parallel.VerifInstallHashStub()
	j := &verifJob{}
	j.now = vz.InstantNear("now")
	verifClock(j.now)
	rj := &execution.Job{}
	rj.Namespace = "ns"
	rj.Name = "job"
	rj.UID = "job-uid"
	rj.Spec.Template = &execution.JobTemplate{}
	j.maxAttempts = 1
	if vz.Bool("hasMaxAttempts") {
		m := vz.IntRange("maxAttempts", 1, o.maxAttemptsHi)
		rj.Spec.Template.MaxAttempts = pointer.Int64(m)
		j.maxAttempts = m
	}
	if o.retryDelay && vz.Bool("hasRetryDelay") {
		d := vz.IntRange("retryDelaySeconds", 0, 1<<20)
		rj.Spec.Template.RetryDelaySeconds = pointer.Int64(d)
		j.delaySecs = d
	}
	par := o.parallel == 2 || (o.parallel == 1 && vz.Bool("parallel"))
	if par {
		spec := &execution.ParallelismSpec{WithCount: pointer.Int64(2)}
		if vz.Bool("anySuccessful") {
			spec.CompletionStrategy = execution.AnySuccessful
			j.strategyAny = true
		} else if vz.Bool("allSuccessfulExplicit") {
			spec.CompletionStrategy = execution.AllSuccessful
		}
		rj.Spec.Template.Parallelism = spec
	}
	j.indexes = parallel.GenerateIndexes(rj.Spec.Template.Parallelism)
	for _, ix := range j.indexes {
		h, _ := parallel.HashIndex(ix)
		j.hashes = append(j.hashes, h)
	}
	j.started = o.started == 1 || vz.Bool("started")
	if j.started {
		t := metav1.NewTime(vz.InstantNear("startTime"))
		rj.Status.StartTime = &t
	}
	if o.allowKill && vz.Bool("hasKillTimestamp") {
		j.hasKill = true
		j.kill = vz.InstantNear("killTimestamp")
		t := metav1.NewTime(j.kill)
		rj.Spec.KillTimestamp = &t
	}
	if o.allowAdmErr && vz.Bool("admissionError") {
		j.admErr = true
		jobutil.MarkAdmissionError(rj, "refused")
	}
	rj.Finalizers = []string{executiongroup.DeleteDependentsFinalizer}
	j.hasFinal = true
	if o.allowDeletion && vz.Bool("deleting") {
		j.deleted = true
		t := metav1.NewTime(vz.InstantNear("deletionTimestamp"))
		rj.DeletionTimestamp = &t
		if o.allowTTL && vz.Bool("finalizerGone") {
			rj.Finalizers = nil
			j.hasFinal = false
		}
	}
	// status.tasks
	n := 0
	if j.started {
		n = vz.Choice("nrefs", o.maxRefs+1)
	}
	if o.twoLive {
		n = 2
	}
	perIndex := make([]int64, len(j.indexes))
	for i := 0; i < n; i++ {
		r := &verifRef{}
		r.pidx = 0
		if o.twoLive {
			r.pidx = i
		} else if len(j.indexes) > 1 {
			r.pidx = vz.Choice("ref.pidx", len(j.indexes))
		}
		r.retry = perIndex[r.pidx]
		perIndex[r.pidx]++
		r.name, _ = jobutil.GenerateTaskName(rj.Name, tasks.TaskIndex{Retry: r.retry, Parallel: j.indexes[r.pidx]})
		r.created = o.instant("ref.created", 10*i)
		ref := execution.TaskRef{Name: r.name, CreationTimestamp: metav1.NewTime(r.created), RetryIndex: r.retry}
		pi := j.indexes[r.pidx]
		ref.ParallelIndex = &pi
		ref.Status.State = execution.TaskStarting
		if !o.noRunning && vz.Bool("ref.hasRunning") {
			r.hasRunning = true
			r.running = o.instant("ref.running", 10*i+1)
			t := metav1.NewTime(r.running)
			ref.RunningTimestamp = &t
			ref.Status.State = execution.TaskRunning
		}
		if !o.twoLive && vz.Bool("ref.hasFinished") {
			r.hasFinished = true
			if o.symFinish {
				r.finished = vz.InstantNear("ref.finished")
			} else {
				r.finished = o.instant("ref.finished", 10*i+2)
			}
			t := metav1.NewTime(r.finished)
			ref.FinishTimestamp = &t
			ref.Status.State = execution.TaskTerminated
			rc := 1
			if !o.oneResult {
				rc = vz.Choice("ref.result", 3)
			}
			switch rc {
			case 0:
				r.result = execution.TaskSucceeded
			case 1:
				r.result = execution.TaskFailed
			case 2:
				r.result = execution.TaskKilled
			}
			ref.Status.Result = r.result
			st := ref.Status
			ref.DeletedStatus = &st
			r.hasDeleted = true
		}
		if o.killingRefs && !r.hasFinished && vz.Bool("ref.recordedKilling") {
			ref.Status.State = execution.TaskKilling
		}
		if o.preMarked && !r.hasFinished && vz.Bool("ref.preMarkedKilled") {
			ref.DeletedStatus = &execution.TaskStatus{State: execution.TaskTerminated, Result: execution.TaskKilled}
			r.hasDeleted = true
		}
		j.refs = append(j.refs, r)
		rj.Status.Tasks = append(rj.Status.Tasks, ref)
	}
	if o.inv8 {
		for p := range j.indexes {
			live := 0
			for _, r := range j.refs {
				if r.pidx != p {
					continue
				}
				if !r.hasFinished {
					live++
				}
				// no attempt after a success, no attempt after an unfinished one
				for _, q := range j.refs {
					if q.pidx == p && q.retry > r.retry {
						vz.Assume(r.hasFinished && r.result != execution.TaskSucceeded)
					}
				}
			}
			vz.Assume(live <= 1)
			vz.Assume(perIndex[p] <= j.maxAttempts)
		}
	}
	rj.Status.CreatedTasks = int64(n)
	j.rj = rj
	return j
}

// oracle helpers, written from the statement
func (j *verifJob) succeeded(p int) bool {
	for _, r := range j.refs {
		if r.pidx == p && r.result == execution.TaskSucceeded {
			return true
		}
	}
	return false
}

func (j *verifJob) finishedCount(p int) int64 {
	n := int64(0)
	for _, r := range j.refs {
		if r.pidx == p && r.hasFinished {
			n++
		}
	}
	return n
}

func (j *verifJob) exhausted(p int) bool {
	return !j.succeeded(p) && j.finishedCount(p) >= j.maxAttempts
}

func (j *verifJob) liveRefs() int {
	n := 0
	for _, r := range j.refs {
		if !r.hasFinished {
			n++
		}
	}
	return n
}
