//go:build verif

package jobcontroller

import (
	"context"
	"time"

	metav1 "k8s.io/apimachinery/pkg/apis/meta/v1"
	"k8s.io/utils/pointer"
	utiltrace "k8s.io/utils/trace"

	configv1alpha1 "github.com/furiko-io/furiko/apis/config/v1alpha1"
	executiongroup "github.com/furiko-io/furiko/apis/execution"
	execution "github.com/furiko-io/furiko/apis/execution/v1alpha1"
	coreerrors "github.com/furiko-io/furiko/pkg/core/errors"
	"github.com/furiko-io/furiko/pkg/execution/tasks"
	jobutil "github.com/furiko-io/furiko/pkg/execution/util/job"
	"github.com/furiko-io/furiko/pkg/utils/meta"
	vz "github.com/furiko-io/furiko/pkg/zzverif"
	"github.com/furiko-io/furiko/pkg/zzverif/fakes"
)

type verifPassOpts struct {
	job            verifJobOpts
	cacheMayLag    bool // a ref's task object may be missing from the cache
	taskMayFinish  bool // a cached unfinished task may have finished since
	taskMayRun     bool // ... or started running since
	taskMayLoseRunning bool // a task seen finished may no longer report its running time
	taskDeleting   bool // cached tasks may carry a deletionTimestamp
	createOutcomes int  // 1 = ok only; 2 = + other error; 4 = + AlreadyExists + AdmissionRefused
	deleteMayFail  bool
	cfgTimeouts    bool // pending / force-delete / ttl defaults symbolic
	noPending      bool // ... but no pending timeout
	apiMayFail     bool
}

type verifPass struct {
	j       *verifJob
	te      *fakes.TaskEnv
	api     *fakes.API
	queue   *fakes.Queue
	cfg     *configv1alpha1.JobExecutionConfig
	r       *Reconciler
	created []tasks.TaskIndex
	createdNames []string
	occupantOwned bool
	occupantSeen  bool
	apiFailed     int
	deleteFailed  int
	createErr     int
	admRefused    bool
	pendingSecs   int64 // effective pending timeout (0 = disabled)
	forceSecs     int64
	ttlSecs       int64
	out     *execution.Job
	wroteSpec   *execution.Job
	wroteStatus *execution.Job
	deletedJob  bool
}

func verifSetupPass(o verifPassOpts) *verifPass {
	jobutil.VerifHook_ConcurrentTasks = jobutil.VerifSequentialTasks
	p := &verifPass{te: &fakes.TaskEnv{}, api: &fakes.API{}, queue: &fakes.Queue{}}
	p.j = verifDrawJobState(o.job)
	j := p.j
	p.cfg = &configv1alpha1.JobExecutionConfig{}
	if o.cfgTimeouts {
		if !o.noPending && vz.Bool("cfg.hasPending") {
			v := vz.IntRange("cfg.pendingSecs", 0, 1<<20)
			p.cfg.DefaultPendingTimeoutSeconds = pointer.Int64(v)
			p.pendingSecs = v
		}
		if !o.noPending && vz.Bool("job.hasPending") {
			v := vz.IntRange("job.pendingSecs", -1, 1<<20)
			j.rj.Spec.Template.TaskPendingTimeoutSeconds = pointer.Int64(v)
			if v >= 0 {
				p.pendingSecs = v
			}
		}
		if vz.Bool("cfg.hasForce") {
			v := vz.IntRange("cfg.forceSecs", 0, 1<<20)
			p.cfg.ForceDeleteTaskTimeoutSeconds = pointer.Int64(v)
			p.forceSecs = v
		}
		j.rj.Spec.Template.ForbidTaskForceDeletion = vz.Bool("forbidForce")
	}
	// cache view of every recorded task
	for i, r := range j.refs {
		r.inCache = !o.cacheMayLag || vz.Bool("task.inCache")
		if !r.inCache {
			continue
		}
		t := &fakes.Task{Name: r.name, Retry: r.retry, Ref: *j.rj.Status.Tasks[i].DeepCopy()}
		pi := j.indexes[r.pidx]
		t.PIndex = &pi
		t.Ref.DeletedStatus = nil
		ctrl := true
		t.Owners = []metav1.OwnerReference{{Kind: execution.KindJob, UID: j.rj.UID, Controller: &ctrl}}
		if o.taskMayFinish && !r.hasFinished {
			if o.taskMayRun && !r.hasRunning && vz.Bool("task.nowRunning") {
				ts := metav1.NewTime(vz.InstantNear("task.runningAt"))
				t.Ref.RunningTimestamp = &ts
				t.Ref.Status.State = execution.TaskRunning
			}
			if vz.Bool("task.nowFinished") {
				ts := metav1.NewTime(vz.InstantNear("task.finishedAt"))
				t.Ref.FinishTimestamp = &ts
				t.Ref.Status.State = execution.TaskTerminated
				if o.taskMayLoseRunning && t.Ref.RunningTimestamp != nil && vz.Bool("task.lostRunningTime") {
					// the executor no longer knows when the task started (container state unknown)
					t.Ref.RunningTimestamp = nil
				}
				if vz.Bool("task.nowSucceeded") {
					t.Ref.Status.Result = execution.TaskSucceeded
				} else {
					t.Ref.Status.Result = execution.TaskFailed
				}
			} else if o.taskMayLoseRunning && t.Ref.RunningTimestamp != nil && vz.Bool("task.unfinishedLostRunningTime") {
				// a live task that was seen running reports no container state for now (node unreachable)
				t.Ref.RunningTimestamp = nil
				t.Ref.Status.State = execution.TaskStarting
				vz.Cover("live-task-lost-its-running-time")
			}
		}
		if o.taskDeleting && vz.Bool("task.deleting") {
			ts := metav1.NewTime(vz.InstantNear("task.deletionTimestamp"))
			t.DeletionTS = &ts
			// as PodTask.GetState: a task that is being deleted and has not finished is Killing
			if t.Ref.FinishTimestamp.IsZero() {
				t.Ref.Status.State = execution.TaskKilling
			}
		}
		r.task = t
		p.te.Cache = append(p.te.Cache, t)
	}
	p.te.OnCreate = func(index tasks.TaskIndex) (tasks.Task, error) {
		name, _ := jobutil.GenerateTaskName(j.rj.Name, index)
		outcome := 0
		if o.createOutcomes > 1 {
			outcome = vz.Choice("create.outcome", o.createOutcomes)
		}
		switch outcome {
		case 1:
			p.createErr++
			return nil, fakes.ErrorOfKind(1, name)
		case 2:
			// the name is taken: the occupant is visible to the lister with arbitrary owner references
			p.occupantSeen = true
			occ := &fakes.Task{Name: name, Retry: index.Retry}
			occ.Ref = execution.TaskRef{Name: name, CreationTimestamp: metav1.NewTime(j.now), RetryIndex: index.Retry}
			pi := index.Parallel
			occ.Ref.ParallelIndex = &pi
			occ.PIndex = &pi
			if vz.Bool("occupant.hasOwner") {
				ref := metav1.OwnerReference{Kind: execution.KindJob, UID: j.rj.UID}
				if vz.Bool("occupant.isController") {
					c := vz.Bool("occupant.controllerTrue")
					ref.Controller = &c
				}
				if vz.Bool("occupant.otherKind") {
					ref.Kind = "CronJob"
				}
				if vz.Bool("occupant.otherUID") {
					ref.UID = "someone-else"
				}
				occ.Owners = []metav1.OwnerReference{ref}
				p.occupantOwned = ref.Controller != nil && *ref.Controller && ref.Kind == execution.KindJob && ref.UID == j.rj.UID
			}
			if vz.Bool("occupant.beingDeleted") {
				// e.g. a Pod stuck in Terminating (finalizer, unreachable node): it may never go away
				t := metav1.NewTime(j.now.Add(-time.Minute))
				occ.DeletionTS = &t
				vz.Cover("occupant-being-deleted")
			}
			p.te.Cache = append(p.te.Cache, occ)
			return nil, fakes.AlreadyExistsPod(name)
		case 3:
			p.admRefused = true
			return nil, coreerrors.NewAdmissionRefusedError("pod is invalid")
		}
		p.created = append(p.created, index)
		p.createdNames = append(p.createdNames, name)
		t := &fakes.Task{Name: name, Retry: index.Retry}
		t.Ref = execution.TaskRef{Name: name, CreationTimestamp: metav1.NewTime(j.now), RetryIndex: index.Retry}
		pi := index.Parallel
		t.Ref.ParallelIndex = &pi
		t.PIndex = &pi
		t.Ref.Status.State = execution.TaskStarting
		ctrl := true
		t.Owners = []metav1.OwnerReference{{Kind: execution.KindJob, UID: j.rj.UID, Controller: &ctrl}}
		return t, nil
	}
	p.te.OnDelete = func(name string, force bool) error {
		if o.deleteMayFail && vz.Bool("delete.fails") {
			p.deleteFailed++
			return fakes.ErrorOfKind(1, name)
		}
		return nil
	}
	p.api.Decide = func(c *fakes.APICall) error {
		if o.apiMayFail && vz.Bool("api.fails") {
			p.apiFailed++
			return fakes.ErrorOfKind(vz.Choice("api.errKind", 2), c.Name)
		}
		return nil
	}
	p.api.Apply = func(c *fakes.APICall) {
		switch c.Verb {
		case "update":
			p.wroteSpec = c.Job
		case "updateStatus":
			p.wroteStatus = c.Job
		case "delete":
			p.deletedJob = true
		}
	}
	ctx := &Context{
		Context:     &fakes.Context{Cfg: &fakes.Configs{JobCfg: p.cfg}},
		jobInformer: &fakes.JobInformer{Inf: &fakes.SharedInformer{}, L: &fakes.JobLister{Items: []*execution.Job{j.rj}}},
		queue:       p.queue,
		recorder:    &fakes.Recorder{},
		tasks:       p.te,
	}
	p.r = &Reconciler{Context: ctx}
	p.r.client = NewExecutionControl(&fakes.ExecClient{A: p.api}, "verif")
	return p
}

// run executes one sync (not SyncOne: the writes are checked separately).
func (p *verifPass) run() error {
	out, err := p.r.sync(context.Background(), p.j.rj, p.cfg, utiltrace.New("verif"))
	p.out = out
	if out != nil && p.j.started && !p.j.deleted {
		// C11: the task counters equal what the task list shows
		running := int64(0)
		for _, ref := range out.Status.Tasks {
			if !ref.RunningTimestamp.IsZero() && ref.FinishTimestamp.IsZero() {
				running++
			}
		}
		vz.Assert(out.Status.CreatedTasks == int64(len(out.Status.Tasks)), "C11/counters/created-tasks-equals-the-list")
		vz.Assert(out.Status.RunningTasks == running, "C11/counters/running-tasks-equals-the-list")
	}
	return err
}

func (p *verifPass) armedFor(deadline time.Time) bool {
	armed := false
	for _, op := range p.queue.Ops {
		if op.Op == "addAfter" && op.Key == "ns/job" {
			armed = vz.Or(armed, !op.At.Add(op.After).Before(deadline))
		}
	}
	return armed
}

func (p *verifPass) refsOf(rj *execution.Job, pidx int) []execution.TaskRef {
	var out []execution.TaskRef
	for _, ref := range rj.Status.Tasks {
		h := p.j.hashes[0]
		if ref.ParallelIndex != nil {
			for k := range p.j.indexes {
				if ref.ParallelIndex.IndexNumber != nil && p.j.indexes[k].IndexNumber != nil && *ref.ParallelIndex.IndexNumber == *p.j.indexes[k].IndexNumber {
					h = p.j.hashes[k]
				}
			}
		}
		if h == p.j.hashes[pidx] {
			out = append(out, ref)
		}
	}
	return out
}

// VerifH_C08_create: one pass over a started Job: every task creation obeys the
// per-index rules, and the recorded task list keeps its invariant.
func VerifH_C08_create() {
	// (three recorded refs did not finish within 25 minutes; the thorough tier instead adds
	// running timestamps and tasks that started running since the last pass)
	maxRefs := 2
	p := verifSetupPass(verifPassOpts{
		job:           verifJobOpts{maxRefs: maxRefs, parallel: 1, started: 1, maxAttemptsHi: 3, retryDelay: true, inv8: true, concreteTimes: true, symFinish: true, noRunning: !vz.Thorough()},
		taskMayFinish: true, taskMayRun: vz.Thorough(), createOutcomes: 2,
	})
	p.verifCheckCreates()
}

// VerifH_C08_killing: the recorded tasks may be in the middle of being deleted
// (deletionTimestamp set, not finished: state Killing) or have finished since:
// an attempt that is still alive blocks the next one, whatever its state is called.
func VerifH_C08_killing() {
	p := verifSetupPass(verifPassOpts{
		job:           verifJobOpts{maxRefs: 2, parallel: 1, started: 1, maxAttemptsHi: 3, inv8: true, concreteTimes: true, oneResult: true, noRunning: true, killingRefs: true},
		taskMayFinish: true, taskDeleting: true, createOutcomes: 1,
	})
	p.verifCheckCreates()
	for _, r := range p.j.refs {
		if r.task != nil && !r.task.DeletionTS.IsZero() && r.task.Ref.FinishTimestamp.IsZero() {
			vz.Cover("task-being-deleted")
		}
	}
}

// VerifH_C08_blocked: no task is created for a Job that is not started, is being
// deleted, has a kill timestamp or an admission error.
func VerifH_C08_blocked() {
	p := verifSetupPass(verifPassOpts{
		job:           verifJobOpts{maxRefs: 1, parallel: 1, started: 0, allowKill: true, allowAdmErr: true, allowDeletion: true, maxAttemptsHi: 2, inv8: true, concreteTimes: true},
		taskMayFinish: true, createOutcomes: 1,
	})
	p.verifCheckCreates()
	j := p.j
	if !j.started || j.deleted || j.hasKill || j.admErr {
		vz.Cover("blocked")
	}
}

func (p *verifPass) verifCheckCreates() {
	j := p.j
	err := p.run()
	_ = err
	now := j.now
	// state of each index as the pass saw it (recorded refs refreshed by the cache view)
	perIndexCreates := make([]int, len(j.indexes))
	// Is the Job already complete, judged by what the pass could see (recorded refs
	// refreshed by the tasks in the cache; vanished tasks are left out, which only
	// under-approximates completeness)? AnySuccessful: some index succeeded;
	// AllSuccessful / not parallel: some index used all its attempts without success.
	complete := false
	if len(j.indexes) > 1 {
		for k := range j.indexes {
			succ := false
			finished := int64(0)
			for _, r := range j.refs {
				if r.pidx != k {
					continue
				}
				fin, res := r.hasFinished, r.result
				if r.task != nil && !r.hasFinished && !r.task.Ref.FinishTimestamp.IsZero() {
					fin, res = true, r.task.Ref.Status.Result
				}
				if fin {
					finished++
					if res == execution.TaskSucceeded {
						succ = true
					}
				}
			}
			if j.strategyAny && succ {
				complete = true
			}
			if !j.strategyAny && !succ && finished >= j.maxAttempts {
				complete = true
			}
		}
	}
	for ci, idx := range p.created {
		pidx := -1
		for k := range j.indexes {
			if *j.indexes[k].IndexNumber == *idx.Parallel.IndexNumber {
				pidx = k
			}
		}
		vz.Assert(pidx >= 0, "C08/create-for-a-requested-index")
		perIndexCreates[pidx]++
		vz.Cover("created")
		// job-level preconditions
		vz.Assert(j.started, "C08/no-create-before-start")
		vz.Assert(!j.deleted, "C08/no-create-while-deleting")
		vz.Assert(!j.hasKill, "C08/no-create-with-killTimestamp")
		vz.Assert(!j.admErr, "C08/no-create-after-admission-error")
		vz.Assert(!complete, "C08/no-create-once-the-job-is-complete")
		if len(j.indexes) > 1 {
			vz.Cover("created-for-a-parallel-job")
		}
		// per-index rules against the recorded refs of that index
		n := int64(0)
		var latestFinish time.Time
		for _, r := range j.refs {
			if r.pidx != pidx {
				continue
			}
			n++
			fin, finAt, res := r.hasFinished, r.finished, r.result
			if r.task != nil && !r.hasFinished && !r.task.Ref.FinishTimestamp.IsZero() {
				fin, finAt, res = true, r.task.Ref.FinishTimestamp.Time, r.task.Ref.Status.Result
			}
			if !r.inCache && !r.hasFinished {
				fin, finAt = true, now // vanished: recorded as lost now
			}
			vz.Assert(fin, "C08/one-live-task-per-index")
			vz.Assert(res != execution.TaskSucceeded, "C08/no-create-after-success")
			if fin && finAt.After(latestFinish) {
				latestFinish = finAt
			}
		}
		vz.Assert(idx.Retry == n, "C08/retry-numbers-without-gaps")
		vz.Assert(idx.Retry < j.maxAttempts, "C08/never-more-than-maxAttempts")
		if n > 0 {
			vz.Assert(!now.Before(latestFinish.Add(time.Duration(j.delaySecs)*time.Second)), "C08/retry-not-before-delay")
			vz.Cover("retry-created")
		}
		_ = ci
	}
	for k := range perIndexCreates {
		vz.Assert(perIndexCreates[k] <= 1, "C08/at-most-one-create-per-index-per-pass")
	}
	// post-state invariant on the recorded list
	if p.out != nil {
		for k := range j.indexes {
			refs := p.refsOf(p.out, k)
			live := 0
			seen := make([]bool, len(refs)+1)
			for _, ref := range refs {
				if ref.FinishTimestamp.IsZero() {
					live++
				}
				if ref.RetryIndex >= 0 && int(ref.RetryIndex) < len(refs) {
					vz.Assert(!seen[ref.RetryIndex], "C08/post/retry-numbers-distinct")
					seen[ref.RetryIndex] = true
				} else {
					vz.Assert(false, "C08/post/retry-numbers-contiguous")
				}
			}
			vz.Assert(live <= 1, "C08/post/one-live-task-per-index")
			vz.Assert(int64(len(refs)) <= j.maxAttempts, "C08/post/never-more-than-maxAttempts")
		}
		vz.Assert(len(p.out.Status.Tasks) >= len(j.rj.Status.Tasks), "C11/L2/task-list-never-shrinks")
	}
}

// VerifH_C12_deadlines: kill timestamp, pending timeout and force deletion.
func VerifH_C12_deadlines() {
	maxRefs := 1
	if vz.Thorough() {
		maxRefs = 2
	}
	p := verifSetupPass(verifPassOpts{
		job:          verifJobOpts{maxRefs: maxRefs, parallel: 0, started: 1, allowKill: true, allowAdmErr: true, maxAttemptsHi: 2, inv8: true, oneResult: true},
		taskDeleting: true, cfgTimeouts: true, deleteMayFail: vz.Thorough(), createOutcomes: 1,
	})
	p.verifCheckDeadlines()
}

// VerifH_C12_twoTasks: two live tasks of a parallel Job, each possibly being
// deleted since its own instant: every deadline is judged per task.
func VerifH_C12_twoTasks() {
	p := verifSetupPass(verifPassOpts{
		job:          verifJobOpts{maxRefs: 2, parallel: 2, started: 1, allowKill: true, maxAttemptsHi: 1, inv8: true, twoLive: true, noRunning: true, concreteTimes: true},
		taskDeleting: true, cfgTimeouts: true, noPending: true, createOutcomes: 1,
	})
	p.verifCheckDeadlines()
	n := 0
	for _, r := range p.j.refs {
		if r.task != nil && !r.task.DeletionTS.IsZero() {
			n++
		}
	}
	if n == 2 {
		vz.Cover("two-tasks-deleting")
	}
}

func (p *verifPass) verifCheckDeadlines() {
	j := p.j
	err := p.run()
	now := j.now
	killPassed := j.hasKill && !j.kill.After(now)
	deleted := map[string]bool{}
	forced := map[string]bool{}
	for _, c := range p.te.CallsOf("delete") {
		if c.Force {
			forced[c.Name] = true
		} else {
			deleted[c.Name] = true
		}
	}
	for _, r := range j.refs {
		if r.task == nil {
			continue
		}
		t := r.task
		unfinished := t.Ref.FinishTimestamp.IsZero()
		neverRan := t.Ref.RunningTimestamp.IsZero()
		deleting := !t.DeletionTS.IsZero()
		pendingDue := p.pendingSecs > 0 && unfinished && neverRan && !now.Before(r.created.Add(time.Duration(p.pendingSecs)*time.Second))
		if deleted[r.name] {
			vz.Cover("graceful-delete")
			vz.Assert(unfinished, "C12/delete-only-unfinished-tasks")
			vz.Assert(killPassed || pendingDue, "C12/no-delete-before-its-deadline")
			if !killPassed {
				vz.Cover("pending-timeout-delete")
			}
		}
		if forced[r.name] {
			vz.Cover("force-delete")
			vz.Assert(p.forceSecs > 0, "C12/force-only-when-configured")
			vz.Assert(!j.rj.Spec.Template.ForbidTaskForceDeletion, "C12/never-force-when-forbidden")
			vz.Assert(deleting, "C12/force-only-tasks-already-deleting")
			if deleting {
				vz.Assert(!now.Before(t.DeletionTS.Add(time.Duration(p.forceSecs)*time.Second)), "C12/force-not-before-timeout")
			}
		}
		if err == nil && p.deleteFailed == 0 {
			// past a deadline every qualifying task is dealt with in this pass
			if killPassed && unfinished && !deleting {
				vz.Assert(deleted[r.name], "C12/kill-deletes-every-live-task")
			}
			if pendingDue && !deleting && !killPassed {
				vz.Assert(deleted[r.name], "C12/pending-timeout-deletes-task")
				// and it counts as a finished (killed) attempt once gone
				for _, ref := range p.out.Status.Tasks {
					if ref.Name == r.name {
						vz.Assert(ref.DeletedStatus != nil && ref.DeletedStatus.Result == execution.TaskKilled, "C12/pending-timeout-recorded-as-killed")
					}
				}
			}
			// before a deadline a re-sync is armed
			if p.pendingSecs > 0 && unfinished && neverRan && !pendingDue && !killPassed {
				vz.Assert(p.armedFor(r.created.Add(time.Duration(p.pendingSecs)*time.Second)), "C12/pending-deadline-resync-armed")
				vz.Cover("pending-armed")
			}
			if deleting && p.forceSecs > 0 && !j.rj.Spec.Template.ForbidTaskForceDeletion {
				dl := t.DeletionTS.Add(time.Duration(p.forceSecs) * time.Second)
				if now.Before(dl) {
					vz.Assert(p.armedFor(dl), "C12/force-deadline-resync-armed")
				} else {
					vz.Assert(forced[r.name], "C12/force-delete-after-timeout")
				}
			}
		}
	}
	if j.hasKill {
		vz.Assert(len(p.created) == 0, "C12/no-create-once-killTimestamp-set")
	}
}

// VerifH_C13_finalize: finalizer removal only after every listed task is gone; TTL never early.
func VerifH_C13_finalize() {
	p := verifSetupPass(verifPassOpts{
		job:         verifJobOpts{maxRefs: 2, parallel: 0, started: 1, allowDeletion: true, allowTTL: true, maxAttemptsHi: 2, inv8: true, oneResult: true, noRunning: true},
		cacheMayLag: true, createOutcomes: 1, deleteMayFail: true, taskDeleting: true,
	})
	j := p.j
	if vz.Bool("cfg.hasTTL") {
		v := vz.IntRange("cfg.ttlSecs", 0, 1<<20)
		p.cfg.DefaultTTLSecondsAfterFinished = pointer.Int64(v)
		p.ttlSecs = v
	}
	if vz.Bool("job.hasTTL") {
		v := vz.IntRange("job.ttlSecs", 0, 1<<20)
		j.rj.Spec.TTLSecondsAfterFinished = pointer.Int64(v)
		p.ttlSecs = v
	}
	err := p.run()
	now := j.now
	anyListed := false
	for _, r := range j.refs {
		if r.inCache {
			anyListed = true
		}
	}
	hasFinalAfter := p.out != nil && meta.ContainsFinalizer(p.out.Finalizers, executiongroup.DeleteDependentsFinalizer)
	if j.deleted && j.hasFinal && p.out != nil {
		// a task created in this very pass exists as well, whether or not the cache shows it yet
		vz.Assert(len(p.created) == 0, "C13/no-task-created-for-a-job-being-deleted")
		if !hasFinalAfter {
			vz.Cover("finalizer-dropped")
			vz.Assert(!anyListed, "C13/finalizer-kept-while-a-task-is-listed")
			vz.Assert(len(p.created) == 0, "C13/finalizer-kept-while-a-task-is-listed")
		}
		if anyListed && err == nil && p.deleteFailed == 0 {
			for _, r := range j.refs {
				if !r.inCache {
					continue
				}
				found := false
				for _, c := range p.te.CallsOf("delete") {
					if c.Name == r.name {
						found = true
					}
				}
				// (a task that is already being deleted needs no second delete)
				vz.Assert(found || (r.task != nil && !r.task.DeletionTS.IsZero()), "C13/listed-tasks-are-deleted-on-job-deletion")
				vz.Cover("tasks-deleted-for-finalizer")
			}
		}
		if !anyListed && err == nil {
			vz.Assert(!hasFinalAfter, "C13/deletion-completes-once-tasks-gone")
		}
	}
	if !j.deleted {
		vz.Assert(hasFinalAfter, "C13/finalizer-never-dropped-before-deletion")
	}
	// TTL: the controller deletes a finished Job no earlier than finish time + effective TTL
	ttl := time.Duration(p.ttlSecs) * time.Second
	if p.deletedJob {
		vz.Cover("ttl-delete")
		vz.Assert(!j.deleted, "C13/ttl-delete-only-if-not-already-deleting")
		fin := p.out.Status.Condition.Finished
		vz.Assert(fin != nil, "C13/ttl-delete-only-finished-jobs")
		if fin != nil {
			vz.Assert(!now.Before(fin.FinishTimestamp.Add(ttl)), "C13/ttl-never-early")
		}
	} else if err == nil && p.out != nil && !j.deleted && p.apiFailed == 0 {
		if fin := p.out.Status.Condition.Finished; fin != nil {
			due := fin.FinishTimestamp.Add(ttl)
			vz.Assert(now.Before(due), "C13/ttl-delete-once-due")
			if j.rj.Spec.TTLSecondsAfterFinished != nil {
				vz.Assert(p.armedFor(due), "C13/ttl-resync-armed")
				vz.Cover("ttl-armed")
			}
		}
	}
}

// VerifH_C20_jobcontroller: one SyncOne with any single API call failing
// (task create, task delete, Job update, Job status update): the failure is
// reported (so the key is requeued), and the state left behind is one the
// inductive-step lemmas (C08, C09, C12, C13) start from.
func VerifH_C20_jobcontroller() {
	p := verifSetupPass(verifPassOpts{
		job:            verifJobOpts{maxRefs: 1, parallel: 0, started: 1, allowKill: true, allowDeletion: true, maxAttemptsHi: 2, inv8: true, concreteTimes: true, oneResult: true, noRunning: true},
		createOutcomes: 2, deleteMayFail: true, apiMayFail: true, taskMayFinish: true,
	})
	err := p.r.SyncOne(context.Background(), "ns", "job", 0)
	faults := p.apiFailed + p.createErr + p.deleteFailed
	if faults > 0 {
		vz.Cover("fault-injected")
		vz.Assert(err != nil, "C20/L2/jobcontroller-fault-is-reported-for-retry")
	} else {
		vz.Assert(err == nil, "C20/L2/fault-free-pass-succeeds")
		vz.Cover("fault-free")
	}
	// whatever happened, a created task is never lost from the view the status write carries
	if p.wroteStatus != nil {
		for _, n := range p.createdNames {
			found := false
			for _, ref := range p.wroteStatus.Status.Tasks {
				if ref.Name == n {
					found = true
				}
			}
			vz.Assert(found, "C20/L2/created-task-is-in-the-written-status")
		}
	}
}
