//go:build verif

package jobcontroller

import (
	metav1 "k8s.io/apimachinery/pkg/apis/meta/v1"

	execution "github.com/furiko-io/furiko/apis/execution/v1alpha1"
	"github.com/furiko-io/furiko/pkg/execution/tasks"
	jobutil "github.com/furiko-io/furiko/pkg/execution/util/job"
	vz "github.com/furiko-io/furiko/pkg/zzverif"
	"github.com/furiko-io/furiko/pkg/zzverif/fakes"
)

func verifHasRef(rj *execution.Job, name string) *execution.TaskRef {
	for i := range rj.Status.Tasks {
		if rj.Status.Tasks[i].Name == name {
			return &rj.Status.Tasks[i]
		}
	}
	return nil
}

// VerifH_C09_L1_adoption: what happens when the task name is already taken, or
// the executor refuses the task.
func VerifH_C09_L1_adoption() {
	p := verifSetupPass(verifPassOpts{
		job:            verifJobOpts{maxRefs: 1, parallel: 0, started: 1, maxAttemptsHi: 2, inv8: true, concreteTimes: true, oneResult: true, noRunning: true},
		createOutcomes: 4,
	})
	j := p.j
	err := p.run()
	_, marked := jobutil.GetAdmissionErrorMessage(p.out)
	if p.occupantSeen {
		name := ""
		for _, c := range p.te.CallsOf("create") {
			if c.Err != nil {
				n, _ := jobutil.GenerateTaskName(j.rj.Name, c.Index)
				name = n
			}
		}
		adopted := verifHasRef(p.out, name) != nil
		if p.occupantOwned {
			vz.Cover("adopted-own-task")
			vz.Assert(err == nil && adopted, "C09/L1/own-task-is-adopted")
			vz.Assert(!marked, "C09/L1/adoption-is-not-an-admission-error")
		} else {
			vz.Cover("foreign-occupant")
			vz.Assert(!adopted, "C09/L1/foreign-object-never-adopted")
			if err == nil && !marked {
				vz.Finding("F09-1")
			}
			// (the occupant is visible in the cache and no call fails on this path: nothing is
			// transient here, so "retry later" would be retrying for ever)
			vz.Assert(marked, "C09/L1/foreign-occupant-ends-in-AdmissionError")
		}
	}
	if p.admRefused {
		vz.Cover("admission-refused")
		vz.Assert(marked, "C09/L1/refused-task-ends-in-AdmissionError")
	}
	if p.createErr > 0 {
		vz.Cover("create-error")
		vz.Assert(err != nil, "C09/L1/transient-create-error-is-retried")
		vz.Assert(!marked, "C09/L1/transient-error-is-not-an-admission-error")
	}
}

// VerifH_C09_L2_crash: the task was created but never recorded (crash or failed
// status write after the create). From that state, with an arbitrary pod-cache
// view, no second task is created for the attempt and nothing recorded is lost.
func VerifH_C09_L2_crash() {
	p := verifSetupPass(verifPassOpts{
		job:           verifJobOpts{maxRefs: 2, parallel: 0, started: 1, allowKill: true, maxAttemptsHi: 3, inv8: true, concreteTimes: true, oneResult: true, preMarked: true},
		cacheMayLag:   true, taskMayFinish: true, taskMayLoseRunning: true, createOutcomes: 1,
	})
	j := p.j
	// ghost truth: which pods exist in the API
	exists := map[string]bool{}
	lagging := map[string]bool{}
	for _, r := range j.refs {
		if r.inCache {
			exists[r.name] = true
		} else if !r.hasFinished && vz.Bool("pod.existsButCacheLags") {
			exists[r.name] = true
			lagging[r.name] = true
		}
	}
	// the unrecorded task of the previous, interrupted pass
	next := int64(0)
	for _, r := range j.refs {
		if r.retry+1 > next {
			next = r.retry + 1
		}
	}
	orphanIdx := tasks.TaskIndex{Retry: next, Parallel: j.indexes[0]}
	orphan, _ := jobutil.GenerateTaskName(j.rj.Name, orphanIdx)
	hasOrphan := vz.Bool("orphan.exists")
	orphanCached := false
	if hasOrphan {
		exists[orphan] = true
		if vz.Bool("orphan.inCache") {
			orphanCached = true
			ctrl := true
			t := &fakes.Task{Name: orphan, Retry: next}
			t.Ref = execution.TaskRef{Name: orphan, CreationTimestamp: metav1.NewTime(j.now), RetryIndex: next}
			pi := j.indexes[0]
			t.Ref.ParallelIndex = &pi
			t.PIndex = &pi
			t.Owners = []metav1.OwnerReference{{Kind: execution.KindJob, UID: j.rj.UID, Controller: &ctrl}}
			p.te.Cache = append(p.te.Cache, t)
		}
	}
	okCreate := p.te.OnCreate
	p.te.OnCreate = func(index tasks.TaskIndex) (tasks.Task, error) {
		name, _ := jobutil.GenerateTaskName(j.rj.Name, index)
		if exists[name] {
			return nil, fakes.AlreadyExistsPod(name) // names are unique: the API refuses a second object
		}
		exists[name] = true
		return okCreate(index)
	}
	err := p.run()
	// never a second object for an attempt whose task exists
	for _, n := range p.createdNames {
		vz.Assert(n != orphan || !hasOrphan, "C09/L2/no-duplicate-task-for-an-attempt")
	}
	if hasOrphan && orphanCached && err == nil {
		wanted := false
		for _, c := range p.te.CallsOf("create") {
			n, _ := jobutil.GenerateTaskName(j.rj.Name, c.Index)
			if n == orphan {
				wanted = true
			}
		}
		if wanted {
			vz.Cover("orphan-adopted")
			vz.Assert(verifHasRef(p.out, orphan) != nil, "C09/L2/unrecorded-task-is-adopted")
		}
	}
	if hasOrphan && !orphanCached {
		vz.Cover("orphan-not-yet-visible")
		// the Job's own task, created by an interrupted pass and not yet in the pod cache,
		// occupies the name: that is a reason to retry, never a terminal admission error
		if p.out != nil {
			_, marked := jobutil.GetAdmissionErrorMessage(p.out)
			vz.Assert(!marked, "C09/L2/own-unseen-task-is-not-an-admission-error")
		}
	}
	// nothing recorded is ever forgotten, and recorded times are never cleared
	for i, r := range j.refs {
		old := j.rj.Status.Tasks[i]
		nw := verifHasRef(p.out, r.name)
		vz.Assert(nw != nil, "C09/L2/recorded-task-stays-listed")
		if nw == nil {
			continue
		}
		if !old.RunningTimestamp.IsZero() {
			vz.Assert(!nw.RunningTimestamp.IsZero(), "C11/L2/running-time-never-cleared")
		}
		if !old.FinishTimestamp.IsZero() {
			vz.Assert(!nw.FinishTimestamp.IsZero() && nw.FinishTimestamp.Equal(old.FinishTimestamp), "C11/L2/finish-time-never-changes")
		}
		// the last known state of a task that is seen finished is its real final state,
		// whatever was pencilled in before a delete was issued
		if r.task != nil && !r.task.Ref.FinishTimestamp.IsZero() {
			vz.Assert(nw.Status.Result == r.task.Ref.Status.Result, "C09/L2/observed-final-state-is-recorded")
			// (C10: what later decides the Job's result is the outcome the task really had)
			vz.Assert(nw.DeletedStatus != nil && nw.DeletedStatus.Result == r.task.Ref.Status.Result, "C10/recorded-outcome-is-the-real-outcome")
			vz.Assert(nw.DeletedStatus != nil && nw.DeletedStatus.Result == r.task.Ref.Status.Result, "C09/L2/last-known-state-is-the-observed-final-state")
			vz.Cover("observed-finished")
		}
		if !r.inCache && !r.hasFinished {
			vz.Assert(nw.Status.State == execution.TaskDeletedFinalStateUnknown || nw.DeletedStatus != nil, "C09/L2/vanished-task-keeps-last-known-state")
			vz.Cover("vanished")
		}
		// a task whose object still exists is never recorded as lost
		if exists[r.name] && !r.hasFinished && (r.task == nil || r.task.Ref.FinishTimestamp.IsZero()) {
			if lagging[r.name] {
				vz.Finding("F09-2")
			}
			vz.Assert(nw.FinishTimestamp.IsZero(), "C09/L2/existing-task-never-recorded-as-lost")
		}
	}
	// second pass, after every task that was seen finished has disappeared: an
	// attempt that was observed to succeed is never retried (C08), whatever had
	// been pencilled in for it before.
	succeeded := false
	for _, r := range j.refs {
		if r.hasFinished && r.result == execution.TaskSucceeded {
			succeeded = true
		}
		if r.task != nil && !r.task.Ref.FinishTimestamp.IsZero() && r.task.Ref.Status.Result == execution.TaskSucceeded {
			succeeded = true
		}
	}
	if err == nil && p.out != nil && succeeded {
		var keep []*fakes.Task
		for _, t := range p.te.Cache {
			if t.Ref.FinishTimestamp.IsZero() {
				keep = append(keep, t)
			}
		}
		p.te.Cache = keep
		mark := len(p.created)
		fin1 := p.out.Status.Condition.Finished
		// (two more passes: the pass that notices the disappearance, and the one after it)
		for k := 0; k < 2; k++ {
			p.j.rj = p.out
			if err2 := p.run(); err2 != nil || p.out == nil {
				break
			}
			vz.Cover("second-pass-after-success-vanished")
			vz.Assert(len(p.created) == mark, "C08/L2/no-create-after-observed-success")
			// a Job that was Finished stays Finished with the same result when its tasks disappear
			if fin1 != nil {
				fin := p.out.Status.Condition.Finished
				vz.Assert(fin != nil && fin.Result == fin1.Result, "C11/L2/finished-result-survives-task-disappearance")
				vz.Cover("finished-then-tasks-vanish")
			}
		}
	}
}
