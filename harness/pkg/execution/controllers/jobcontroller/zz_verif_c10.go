//go:build verif

package jobcontroller

import (
	execution "github.com/furiko-io/furiko/apis/execution/v1alpha1"
	jobutil "github.com/furiko-io/furiko/pkg/execution/util/job"
	vz "github.com/furiko-io/furiko/pkg/zzverif"
)

// VerifH_C10_status: the status derived from an arbitrary task list is what the
// task outcomes and the completion strategy imply (C10), and is self-consistent (C11-L1).
func VerifH_C10_status() {
	maxRefs := 2
	if vz.Thorough() {
		maxRefs = 3
	}
	j := verifDrawJobState(verifJobOpts{maxRefs: maxRefs, parallel: 1, allowKill: true, allowAdmErr: true, allowDeletion: true, maxAttemptsHi: 3, concreteTimes: true})
	in := jobutil.UpdateJobTaskRefs(j.rj, nil) // recompute counters only (no task objects: refs keep their recorded state)
	_ = in
	out, err := UpdateJobStatusFromTaskRefs(j.rj)
	vz.Assert(err == nil, "C10/status-computable")
	cond := out.Status.Condition

	// ---- C11-L1 coherence ----
	nset := 0
	if cond.Queueing != nil {
		nset++
	}
	if cond.Waiting != nil {
		nset++
	}
	if cond.Running != nil {
		nset++
	}
	if cond.Finished != nil {
		nset++
	}
	vz.Assert(nset == 1, "C11/L1/exactly-one-condition")
	switch {
	case cond.Queueing != nil:
		vz.Assert(out.Status.State == execution.JobStateQueued, "C11/L1/state-matches-condition")
	case cond.Waiting != nil:
		vz.Assert(out.Status.State == execution.JobStateWaiting, "C11/L1/state-matches-condition")
	case cond.Running != nil:
		vz.Assert(out.Status.State == execution.JobStateRunning, "C11/L1/state-matches-condition")
	case cond.Finished != nil:
		vz.Assert(out.Status.State == execution.JobStateFinished, "C11/L1/state-matches-condition")
	}
	vz.Assert(out.Status.Phase.IsTerminal() == (cond.Finished != nil), "C11/L1/phase-terminal-iff-finished")

	// ---- C10 ----
	allS, anyS, allX, anyX := true, false, true, false
	for p := range j.indexes {
		if j.succeeded(p) {
			anyS = true
		} else {
			allS = false
		}
		if j.exhausted(p) {
			anyX = true
		} else {
			allX = false
		}
	}
	stratOK, stratFail := allS, anyX
	if j.strategyAny {
		stratOK, stratFail = anyS, allX
	}
	if cond.Finished != nil {
		vz.Cover("finished")
		res := cond.Finished.Result
		if res == execution.JobResultSuccess {
			vz.Cover("succeeded")
			vz.Assert(stratOK, "C10/succeeded-only-if-strategy-satisfied")
		}
		if res == execution.JobResultFailed {
			vz.Cover("failed")
			vz.Assert(stratFail, "C10/failed-only-if-strategy-unsatisfiable")
		}
		if j.admErr {
			vz.Assert(res == execution.JobResultAdmissionError, "C10/admission-error-wins")
		}
		// a Job that is not being deleted is reported finished only when none of its tasks is alive
		if !j.deleted {
			if j.admErr && j.liveRefs() > 0 {
				vz.Finding("F10-1")
			}
			vz.Assert(j.liveRefs() == 0, "C10/finished-only-when-no-task-alive")
		}
	}
	// conversely: decided, nothing alive, nothing else interfering => Finished with that result
	if j.started && !j.hasKill && !j.admErr && !j.deleted && j.liveRefs() == 0 && (stratOK || stratFail) {
		vz.Assert(cond.Finished != nil, "C10/decided-and-all-done-is-finished")
		if cond.Finished != nil {
			if stratOK && !stratFail {
				vz.Assert(cond.Finished.Result == execution.JobResultSuccess, "C10/decided-result-success")
			}
			if stratFail && !stratOK {
				vz.Assert(cond.Finished.Result == execution.JobResultFailed, "C10/decided-result-failed")
			}
		}
		vz.Cover("decided")
	}
	// kill: all indexes terminated and kill passed => Killed
	if j.started && j.hasKill && !j.kill.After(j.now) && !j.admErr && j.liveRefs() == 0 {
		vz.Assert(cond.Finished != nil && cond.Finished.Result == execution.JobResultKilled, "C12/killed-when-all-terminated")
		vz.Cover("killed")
	}
}

// VerifH_C11_L2_stable: a Job that was derived Finished at some instant stays
// Finished with the same result and finish time when the status is derived
// again later from the same task list (no user edit, no deletion).
func VerifH_C11_L2_stable() {
	j := verifDrawJobState(verifJobOpts{maxRefs: 2, parallel: 1, started: 1, allowKill: true, allowAdmErr: true, maxAttemptsHi: 2, concreteTimes: true})
	first, err := UpdateJobStatusFromTaskRefs(j.rj)
	vz.Assert(err == nil, "C11/L2/status-computable")
	if first.Status.Condition.Finished == nil {
		return
	}
	vz.Cover("was-finished")
	later := vz.InstantNear("later")
	vz.Assume(!later.Before(j.now))
	verifClock(later)
	second, err := UpdateJobStatusFromTaskRefs(first)
	vz.Assert(err == nil, "C11/L2/status-computable")
	f1, f2 := first.Status.Condition.Finished, second.Status.Condition.Finished
	vz.Assert(f2 != nil, "C11/L2/finished-stays-finished")
	if f2 != nil {
		vz.Assert(f2.Result == f1.Result, "C11/L2/result-never-changes")
		vz.Assert(f2.FinishTimestamp.Equal(&f1.FinishTimestamp), "C11/L2/finish-time-never-changes")
		vz.Assert(second.Status.Phase == first.Status.Phase, "C11/L2/phase-never-changes")
	}
	if j.hasKill && j.kill.After(j.now) && !j.kill.After(later) {
		vz.Cover("kill-time-passed-in-between")
	}
}

// VerifH_C10_decidedStopsRest: a parallel Job (two indexes) whose completion
// strategy is already decided by the recorded outcomes - AnySuccessful with a
// succeeded index, AllSuccessful with an index that used all its attempts -
// while a task of the other index is still alive. "Once the strategy is decided
// the Job does reach that result, after stopping the tasks that are no longer
// needed": the pass deletes every live task and creates none; only then can the
// Job become finished (C10/finished-only-when-no-task-alive in the status lemma).
func VerifH_C10_decidedStopsRest() {
	p := verifSetupPass(verifPassOpts{
		job:            verifJobOpts{maxRefs: 2, parallel: 2, started: 1, maxAttemptsHi: 2, inv8: true, concreteTimes: true},
		taskDeleting:   true,
		createOutcomes: 1,
	})
	j := p.j
	err := p.run()
	decided := false
	for pi := range j.indexes {
		if j.strategyAny && j.succeeded(pi) {
			decided = true
		}
		if !j.strategyAny && j.exhausted(pi) {
			decided = true
		}
	}
	if !decided || err != nil {
		return
	}
	deleted := map[string]bool{}
	for _, c := range p.te.CallsOf("delete") {
		deleted[c.Name] = true
	}
	vz.Assert(len(p.created) == 0, "C10/decided-job-creates-no-further-task")
	live := 0
	for _, r := range j.refs {
		if r.task == nil || r.hasFinished {
			continue
		}
		if !r.task.Ref.FinishTimestamp.IsZero() {
			continue
		}
		live++
		if r.task.DeletionTS.IsZero() {
			vz.Assert(deleted[r.name], "C10/decided-job-stops-the-tasks-no-longer-needed")
			vz.Cover("live-task-of-a-decided-job")
		}
	}
	if live == 0 {
		vz.Cover("decided-nothing-alive")
	}
}
