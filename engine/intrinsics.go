package main

// Intrinsics: harness runtime (zzverif), time, sync, atomic, strings, strconv,
// fmt, errors, sort, context, equality helpers.

import (
	"encoding/base64"
	"fmt"
	"os"
	"sort"
	"sync"
	"go/token"
	"go/types"
	"math/big"
	"regexp"
	"strconv"
	"strings"
	"time"

	"golang.org/x/tools/go/ssa"
)

const vzPkg = "github.com/furiko-io/furiko/pkg/zzverif"

type intrinsicFn func(p *Path, a []Value, site *ssa.CallCommon) Value

var intrinsics map[string]intrinsicFn

func dynamicIntrinsic(name string) intrinsicFn { return nil }

func cstr(p *Path, v Value, what string) string {
	t, ok := v.(*Term)
	if ok {
		if s, ok := t.constStr(); ok {
			return s
		}
	}
	panic(unsupported(what + ": non-constant string"))
}

func termOf(v Value) *Term {
	t, ok := v.(*Term)
	if !ok {
		panic(unsupported(fmt.Sprintf("expected scalar, got %T", v)))
	}
	return t
}

var int64Info = intInfo{64, true}

func init() {
	intrinsics = map[string]intrinsicFn{}
	I := intrinsics

	// ---------- harness runtime ----------
	I[vzPkg+".Int"] = func(p *Path, a []Value, _ *ssa.CallCommon) Value {
		name := cstr(p, a[0], "Int name")
		v := mkVar(fmt.Sprintf("in%d_%s", len(p.inputs), sanitize(name)), SInt)
		p.inputs = append(p.inputs, Input{Name: name, Kind: "int", v: v})
		p.flushAsserts()
		p.addPC(int64Info.inRange(v))
		return v
	}
	I[vzPkg+".IntRange"] = func(p *Path, a []Value, _ *ssa.CallCommon) Value {
		name := cstr(p, a[0], "IntRange name")
		v := mkVar(fmt.Sprintf("in%d_%s", len(p.inputs), sanitize(name)), SInt)
		p.inputs = append(p.inputs, Input{Name: name, Kind: "int", v: v})
		c := mkAnd(mkLe(termOf(a[1]), v), mkLe(v, termOf(a[2])))
		p.assumeFeasible(c)
		p.addPC(c)
		return v
	}
	I[vzPkg+".Bool"] = func(p *Path, a []Value, _ *ssa.CallCommon) Value {
		name := cstr(p, a[0], "Bool name")
		v := mkVar(fmt.Sprintf("in%d_%s", len(p.inputs), sanitize(name)), SBool)
		p.inputs = append(p.inputs, Input{Name: name, Kind: "bool", v: v})
		if p.freshBools == nil {
			p.freshBools = map[string]bool{}
		}
		p.freshBools[v.sv] = true
		return v
	}
	I[vzPkg+".Choice"] = func(p *Path, a []Value, _ *ssa.CallCommon) Value {
		name := cstr(p, a[0], "Choice name")
		n := p.concreteInt(a[1], "Choice n")
		v := mkVar(fmt.Sprintf("in%d_%s", len(p.inputs), sanitize(name)), SInt)
		p.inputs = append(p.inputs, Input{Name: name, Kind: "int", v: v})
		if n <= 0 {
			panic(pathEnd{"assume-false"})
		}
		conds := make([]*Term, n)
		for i := range conds {
			conds[i] = mkEq(v, mkInt(int64(i)))
		}
		k := p.decideX(conds, true)
		return mkInt(int64(k))
	}
	I[vzPkg+".Concretize"] = func(p *Path, a []Value, _ *ssa.CallCommon) Value {
		v := termOf(a[0])
		if v.isConst() {
			return v
		}
		lo := p.concreteInt(a[1], "Concretize lo")
		hi := p.concreteInt(a[2], "Concretize hi")
		conds := make([]*Term, 0, hi-lo+2)
		for i := lo; i <= hi; i++ {
			conds = append(conds, mkEq(v, mkInt(int64(i))))
		}
		conds = append(conds, mkOr(mkLt(v, mkInt(int64(lo))), mkGt(v, mkInt(int64(hi)))))
		k := p.decide(conds)
		if k == hi-lo+1 {
			panic(pathEnd{"assume-false"})
		}
		return mkInt(int64(lo + k))
	}
	I[vzPkg+".Assume"] = func(p *Path, a []Value, _ *ssa.CallCommon) Value {
		c := termOf(a[0])
		if v, ok := c.constBool(); ok {
			if !v {
				panic(pathEnd{"assume-false"})
			}
			return nil
		}
		p.assumeFeasible(c)
		p.addPC(c)
		return nil
	}
	I[vzPkg+".Assert"] = func(p *Path, a []Value, _ *ssa.CallCommon) Value {
		p.assert(termOf(a[0]), cstr(p, a[1], "Assert id"))
		return nil
	}
	I[vzPkg+".Cover"] = func(p *Path, a []Value, _ *ssa.CallCommon) Value {
		p.covers[cstr(p, a[0], "Cover id")] = true
		return nil
	}
	I[vzPkg+".Finding"] = func(p *Path, a []Value, _ *ssa.CallCommon) Value {
		p.findings = append(p.findings, cstr(p, a[0], "Finding id"))
		return nil
	}
	obs := func(p *Path, a []Value, _ *ssa.CallCommon) Value {
		p.observes = append(p.observes, Observation{cstr(p, a[0], "Observe name"), termOf(a[1])})
		return nil
	}
	I[vzPkg+".Observe"] = obs
	I[vzPkg+".ObserveBool"] = obs
	I[vzPkg+".ObserveStr"] = obs
	I[vzPkg+".MapOrderNondet"] = func(p *Path, a []Value, _ *ssa.CallCommon) Value {
		v, _ := termOf(a[0]).constBool()
		p.mapOrderNondet = v
		return nil
	}
	boolN := func(f func(ts ...*Term) *Term) intrinsicFn {
		return func(p *Path, a []Value, _ *ssa.CallCommon) Value {
			ts := make([]*Term, len(a))
			for i := range a {
				ts[i] = termOf(a[i])
			}
			return f(ts...)
		}
	}
	I[vzPkg+".And"] = boolN(mkAnd)
	I[vzPkg+".Or"] = boolN(mkOr)
	I[vzPkg+".Not"] = boolN(func(ts ...*Term) *Term { return mkNot(ts[0]) })
	I[vzPkg+".Implies"] = boolN(func(ts ...*Term) *Term { return mkImplies(ts[0], ts[1]) })
	I[vzPkg+".Iff"] = boolN(func(ts ...*Term) *Term { return mkEq(ts[0], ts[1]) })
	I[vzPkg+".Ite"] = boolN(func(ts ...*Term) *Term { return mkIte(ts[0], ts[1], ts[2]) })
	I[vzPkg+".IteTime"] = func(p *Path, a []Value, _ *ssa.CallCommon) Value {
		return mergeValuesOrFork(p, termOf(a[0]), a[1], a[2])
	}
	I[vzPkg+".MapOrderNondetFor"] = func(p *Path, a []Value, _ *ssa.CallCommon) Value {
		// the argument is an interface holding a map: a rotation of its slot order is
		// drawn now (one decision) and used by every range over it until the next call
		if iv, ok := a[0].(IfaceVal); ok {
			if mv, ok := iv.v.(MapVal); ok && mv.m != nil {
				if p.nondetMaps == nil {
					p.nondetMaps = map[*MapObj]int{}
				}
				n := len(mv.m.liveEntries())
				k := 0
				if n >= 2 && len(mv.m.slots) <= 8 {
					k = p.choose(n)
				}
				p.nondetMaps[mv.m] = k + 1
			}
		}
		return nil
	}
	// OtherProcess(key, f): the value f computes in another process of the same binary.
	// Everything that depends on per-process randomness is re-drawn for the call.
	I[vzPkg+".OtherProcess"] = func(p *Path, a []Value, site *ssa.CallCommon) Value {
		p.epoch++
		r := p.callValue(a[1], nil, site)
		p.epoch--
		return r
	}
	procRand := func(p *Path, what string, sort Sort) *Term {
		if p.procRand == nil {
			p.procRand = map[string]*Term{}
		}
		k := fmt.Sprintf("%d|%s", p.epoch, what)
		if t, ok := p.procRand[k]; ok {
			return t
		}
		t := p.fresh("procrand", sort)
		p.procRand[k] = t
		return t
	}
	I["hash/maphash.MakeSeed"] = func(p *Path, a []Value, site *ssa.CallCommon) Value {
		// the seed itself is an opaque token; what is hashed with it depends on the process
		p.freshCtr++
		return StructVal{t: site.Signature().Results().At(0).Type(), f: []Value{mkInt(int64(p.freshCtr))}}
	}
	I["hash/maphash.String"] = func(p *Path, a []Value, _ *ssa.CallCommon) Value {
		seed := "?"
		if sv, ok := a[0].(StructVal); ok && len(sv.f) > 0 {
			seed = termOf(sv.f[0]).String()
		}
		h := procRand(p, "maphash|"+seed+"|"+termOf(a[1]).String(), SInt)
		p.addPC(mkAnd(mkLe(mkInt(0), h), mkLe(h, mkBig(new(big.Int).SetUint64(^uint64(0))))))
		return h
	}
	I[vzPkg+".MapOrderReps"] = func(p *Path, a []Value, _ *ssa.CallCommon) Value { return mkInt(1) }
	I[vzPkg+".Thorough"] = func(p *Path, a []Value, _ *ssa.CallCommon) Value { return mkBool(p.eng.thorough) }
	I[vzPkg+".Symbolic"] = func(p *Path, a []Value, _ *ssa.CallCommon) Value { return tTrue }
	I[vzPkg+".Unreachable"] = func(p *Path, a []Value, _ *ssa.CallCommon) Value {
		panic(pathEnd{"assume-false"})
	}
	I[vzPkg+".HostCall"] = func(p *Path, a []Value, _ *ssa.CallCommon) Value {
		// HostCall(name string, arg string) string: looked up in the per-run host table
		name := cstr(p, a[0], "HostCall name")
		arg := cstr(p, a[1], "HostCall arg")
		if v, ok := p.eng.hostTable[name+"\x00"+arg]; ok {
			return mkStr(v)
		}
		panic(unsupported("HostCall table miss: " + name + "(" + arg + ")"))
	}

	I[vzPkg+".HostCallInt"] = func(p *Path, a []Value, _ *ssa.CallCommon) Value {
		// HostCallInt(name, prefix string, i int64) string: table lookup with a symbolic
		// integer argument, encoded as an ite chain over the table entries "prefix<k>".
		name := cstr(p, a[0], "HostCallInt name")
		prefix := cstr(p, a[1], "HostCallInt prefix")
		i := termOf(a[2])
		if c, ok := i.constInt64(); ok {
			if v, ok := p.eng.hostTable[name+"\x00"+prefix+strconv.FormatInt(c, 10)]; ok {
				return mkStr(v)
			}
			panic(unsupported("HostCallInt table miss"))
		}
		ents := p.eng.hostIntEntries(name, prefix)
		if len(ents) == 0 {
			panic(unsupported("HostCallInt: empty table for " + name + " " + prefix))
		}
		// the harness must keep i within the table
		p.flushAsserts()
		p.addPC(mkAnd(mkLe(mkInt(ents[0].k), i), mkLe(i, mkInt(ents[len(ents)-1].k))))
		var r *Term = mkStr(ents[len(ents)-1].v)
		for j := len(ents) - 2; j >= 0; j-- {
			r = mkIte(mkEq(i, mkInt(ents[j].k)), mkStr(ents[j].v), r)
		}
		return r
	}

	// HostCallIntCode: as HostCallInt, but the result is an integer that identifies the
	// table value (equal strings <=> equal codes); integer ite chains are far cheaper
	// for the solver than string ones when only equality matters.
	I[vzPkg+".HostCallIntCode"] = func(p *Path, a []Value, _ *ssa.CallCommon) Value {
		name := cstr(p, a[0], "HostCallIntCode name")
		prefix := cstr(p, a[1], "HostCallIntCode prefix")
		i := termOf(a[2])
		ents := p.eng.hostIntEntries(name, prefix)
		if len(ents) == 0 {
			panic(unsupported("HostCallIntCode: empty table for " + name + " " + prefix))
		}
		vals := map[string]bool{}
		for _, e := range ents {
			vals[e.v] = true
		}
		sorted := make([]string, 0, len(vals))
		for v := range vals {
			sorted = append(sorted, v)
		}
		sort.Strings(sorted)
		code := map[string]int64{}
		for k, v := range sorted {
			code[v] = int64(k)
		}
		if c, ok := i.constInt64(); ok {
			if v, ok := p.eng.hostTable[name+"\x00"+prefix+strconv.FormatInt(c, 10)]; ok {
				return mkInt(code[v])
			}
			panic(unsupported("HostCallIntCode table miss"))
		}
		p.flushAsserts()
		p.addPC(mkAnd(mkLe(mkInt(ents[0].k), i), mkLe(i, mkInt(ents[len(ents)-1].k))))
		var r *Term = mkInt(code[ents[len(ents)-1].v])
		for j := len(ents) - 2; j >= 0; j-- {
			r = mkIte(mkEq(i, mkInt(ents[j].k)), mkInt(code[ents[j].v]), r)
		}
		return r
	}

	// ---------- time ----------
	I["time.Now"] = func(p *Path, a []Value, site *ssa.CallCommon) Value {
		if fn := p.eng.lookupFunc(vzPkg, "Now"); fn != nil && !p.inTimeNow {
			p.inTimeNow = true
			defer func() { p.inTimeNow = false }()
			return p.callFunc(fn, nil, nil, site)
		}
		return p.freshInstant("time.Now")
	}
	I["time.Since"] = func(p *Path, a []Value, site *ssa.CallCommon) Value {
		now := I["time.Now"](p, nil, site).(TimeVal)
		return p.timeSub(now, a[0].(TimeVal))
	}
	I["time.Until"] = func(p *Path, a []Value, site *ssa.CallCommon) Value {
		now := I["time.Now"](p, nil, site).(TimeVal)
		return p.timeSub(a[0].(TimeVal), now)
	}
	I["time.Unix"] = func(p *Path, a []Value, _ *ssa.CallCommon) Value {
		sec, nsec := termOf(a[0]), termOf(a[1])
		s, n := normTime(sec, nsec)
		return TimeVal{sec: s, nsec: n, loc: p.locPtr("Local")}
	}
	I["time.UnixMilli"] = func(p *Path, a []Value, _ *ssa.CallCommon) Value {
		ms := termOf(a[0])
		return TimeVal{sec: mkFloorDiv(ms, mkInt(1000)), nsec: mkMul(mkFloorMod(ms, mkInt(1000)), mkInt(1000000)), loc: p.locPtr("Local")}
	}
	I["time.Date"] = func(p *Path, a []Value, _ *ssa.CallCommon) Value {
		var iv [7]int
		for i := 0; i < 7; i++ {
			iv[i] = p.concreteInt(a[i], "time.Date arg")
		}
		t := time.Date(iv[0], time.Month(iv[1]), iv[2], iv[3], iv[4], iv[5], iv[6], time.UTC)
		return TimeVal{sec: mkInt(t.Unix()), nsec: mkInt(int64(t.Nanosecond())), loc: a[7]}
	}
	I["time.FixedZone"] = func(p *Path, a []Value, _ *ssa.CallCommon) Value {
		name := cstr(p, a[0], "FixedZone name")
		off := p.concreteInt(a[1], "FixedZone offset")
		return p.locPtr(fmt.Sprintf("fixed:%s:%d", name, off))
	}
	I["time.LoadLocation"] = func(p *Path, a []Value, _ *ssa.CallCommon) Value {
		name := cstr(p, a[0], "LoadLocation name")
		if name == "" || name == "UTC" {
			return TupleVal{p.locPtr("UTC"), IfaceVal{}}
		}
		if name == "Local" {
			return TupleVal{p.locPtr("Local"), IfaceVal{}}
		}
		if _, err := time.LoadLocation(name); err != nil {
			return TupleVal{Ptr{}, p.newErr(mkStr(err.Error()), nil, "time")}
		}
		return TupleVal{p.locPtr("tz:" + name), IfaceVal{}}
	}
	// --- concrete host evaluation for offset parsing (tzutils.ParseTimezone) ---
	// hostLoc rebuilds the host *time.Location a location pointer stands for.
	hostLoc := func(p *Path, v Value) (*time.Location, bool) {
		l, ok := v.(Ptr)
		if !ok || l.c == nil {
			return time.UTC, true
		}
		for k, c := range p.locs {
			if c != l.c {
				continue
			}
			switch {
			case k == "UTC":
				return time.UTC, true
			case strings.HasPrefix(k, "fixed:"):
				i := strings.LastIndex(k, ":")
				off, err := strconv.Atoi(k[i+1:])
				if err != nil {
					return nil, false
				}
				return time.FixedZone(k[len("fixed:"):i], off), true
			case strings.HasPrefix(k, "tz:"):
				hl, err := time.LoadLocation(k[3:])
				return hl, err == nil
			}
		}
		return nil, false
	}
	hostTime := func(p *Path, t TimeVal) (time.Time, bool) {
		sec, ok1 := t.sec.constInt64()
		nsec, ok2 := t.nsec.constInt64()
		hl, ok3 := hostLoc(p, t.loc)
		if !(ok1 && ok2 && ok3) {
			return time.Time{}, false
		}
		return time.Unix(sec, nsec).In(hl), true
	}
	// time.Parse on a concrete layout and value: evaluated by the host; a parsed
	// numeric zone offset becomes the same kind of location object FixedZone gives.
	I["time.Parse"] = func(p *Path, a []Value, _ *ssa.CallCommon) Value {
		layout := cstr(p, a[0], "time.Parse layout")
		value := cstr(p, a[1], "time.Parse value")
		t, err := time.Parse(layout, value)
		if err != nil {
			return TupleVal{TimeVal{sec: mkInt(zeroTimeSec), nsec: mkInt(0), loc: p.locPtr("UTC")}, p.newErr(mkStr(err.Error()), nil, "time")}
		}
		loc := p.locPtr("UTC")
		if t.Location() != time.UTC {
			name, off := t.Zone()
			loc = p.locPtr(fmt.Sprintf("fixed:%s:%d", name, off))
		}
		return TupleVal{TimeVal{sec: mkInt(t.Unix()), nsec: mkInt(int64(t.Nanosecond())), loc: loc}, IfaceVal{}}
	}
	// Zone of an instant in UTC or in a fixed zone (the offset does not depend on the instant)
	I["(time.Time).Zone"] = func(p *Path, a []Value, _ *ssa.CallCommon) Value {
		t := a[0].(TimeVal)
		hl, ok := hostLoc(p, t.loc)
		if !ok {
			panic(unsupported("Time.Zone of a location that is neither UTC nor a fixed zone"))
		}
		if l, isPtr := t.loc.(Ptr); isPtr && l.c != nil {
			for k, c := range p.locs {
				if c == l.c && strings.HasPrefix(k, "tz:") {
					panic(unsupported("Time.Zone of a tzdata location (offset depends on the instant)"))
				}
			}
		}
		name, off := time.Unix(0, 0).In(hl).Zone()
		return TupleVal{mkStr(name), mkInt(int64(off))}
	}
	cmpT := func(f func(x, y TimeVal) *Term) intrinsicFn {
		return func(p *Path, a []Value, _ *ssa.CallCommon) Value { return f(a[0].(TimeVal), a[1].(TimeVal)) }
	}
	I["(time.Time).After"] = cmpT(func(x, y TimeVal) *Term { return timeLt(y, x) })
	I["(time.Time).Before"] = cmpT(func(x, y TimeVal) *Term { return timeLt(x, y) })
	I["(time.Time).Equal"] = cmpT(func(x, y TimeVal) *Term { return mkAnd(mkEq(x.sec, y.sec), mkEq(x.nsec, y.nsec)) })
	I["(time.Time).Compare"] = cmpT(func(x, y TimeVal) *Term {
		return mkIte(timeLt(x, y), mkInt(-1), mkIte(timeLt(y, x), mkInt(1), mkInt(0)))
	})
	I["(time.Time).IsZero"] = func(p *Path, a []Value, _ *ssa.CallCommon) Value {
		t := a[0].(TimeVal)
		return mkAnd(mkEq(t.sec, mkInt(zeroTimeSec)), mkEq(t.nsec, mkInt(0)))
	}
	I["(time.Time).Unix"] = func(p *Path, a []Value, _ *ssa.CallCommon) Value { return a[0].(TimeVal).sec }
	I["(time.Time).Nanosecond"] = func(p *Path, a []Value, _ *ssa.CallCommon) Value { return a[0].(TimeVal).nsec }
	I["(time.Time).UnixNano"] = func(p *Path, a []Value, _ *ssa.CallCommon) Value {
		t := a[0].(TimeVal)
		r := mkAdd(mkMul(t.sec, mkInt(1e9)), t.nsec)
		return p.wrapCheck(r, types.Typ[types.Int64], "UnixNano")
	}
	I["(time.Time).UnixMilli"] = func(p *Path, a []Value, _ *ssa.CallCommon) Value {
		t := a[0].(TimeVal)
		return mkAdd(mkMul(t.sec, mkInt(1000)), mkFloorDiv(t.nsec, mkInt(1000000)))
	}
	I["(time.Time).Add"] = func(p *Path, a []Value, _ *ssa.CallCommon) Value {
		t := a[0].(TimeVal)
		d := termOf(a[1])
		s, n := normTime(t.sec, mkAdd(t.nsec, d))
		return TimeVal{sec: s, nsec: n, loc: t.loc}
	}
	I["(time.Time).Sub"] = func(p *Path, a []Value, _ *ssa.CallCommon) Value {
		return p.timeSub(a[0].(TimeVal), a[1].(TimeVal))
	}
	I["(time.Time).In"] = func(p *Path, a []Value, _ *ssa.CallCommon) Value {
		t := a[0].(TimeVal)
		l := a[1].(Ptr)
		if l.c == nil {
			p.goPanicf("time: missing Location in call to Time.In")
		}
		t.loc = l
		return t
	}
	I["(time.Time).UTC"] = func(p *Path, a []Value, _ *ssa.CallCommon) Value {
		t := a[0].(TimeVal)
		t.loc = p.locPtr("UTC")
		return t
	}
	I["(time.Time).Local"] = func(p *Path, a []Value, _ *ssa.CallCommon) Value {
		t := a[0].(TimeVal)
		t.loc = p.locPtr("Local")
		return t
	}
	I["(time.Time).Location"] = func(p *Path, a []Value, _ *ssa.CallCommon) Value {
		t := a[0].(TimeVal)
		if l, ok := t.loc.(Ptr); ok && l.c != nil {
			return l
		}
		return p.locPtr("UTC")
	}
	// Truncate / Round by a constant duration that divides a day (whole seconds) or a
	// second (sub-second units): for these the zero-time based rounding of the time
	// package coincides with rounding the Unix representation.
	roundTime := func(p *Path, a []Value, round bool, what string) Value {
		t := a[0].(TimeVal)
		d, ok := termOf(a[1]).constInt64()
		if !ok {
			panic(unsupported(what + " with symbolic duration"))
		}
		if d <= 0 {
			return t
		}
		switch {
		case d%1e9 == 0 && 86400%(d/1e9) == 0:
			k := d / 1e9
			rs := mkFloorMod(t.sec, mkInt(k))                    // seconds past the boundary
			r := mkAdd(mkMul(rs, mkInt(1e9)), t.nsec)            // nanoseconds past the boundary
			down := TimeVal{sec: mkSub(t.sec, rs), nsec: mkInt(0), loc: t.loc}
			if !round {
				return down
			}
			up := mkIte(mkLe(mkInt(d), mkAdd(r, r)), mkInt(k), mkInt(0))
			return TimeVal{sec: mkAdd(down.sec, up), nsec: mkInt(0), loc: t.loc}
		case d < 1e9 && int64(1e9)%d == 0:
			r := mkFloorMod(t.nsec, mkInt(d))
			if !round {
				return TimeVal{sec: t.sec, nsec: mkSub(t.nsec, r), loc: t.loc}
			}
			n := mkIte(mkLe(mkInt(d), mkAdd(r, r)), mkAdd(mkSub(t.nsec, r), mkInt(d)), mkSub(t.nsec, r))
			s2, n2 := normTime(t.sec, n)
			return TimeVal{sec: s2, nsec: n2, loc: t.loc}
		}
		panic(unsupported(what + " by a duration that divides neither a day nor a second"))
	}
	I["(time.Time).Truncate"] = func(p *Path, a []Value, _ *ssa.CallCommon) Value { return roundTime(p, a, false, "Truncate") }
	I["(time.Time).Round"] = func(p *Path, a []Value, _ *ssa.CallCommon) Value { return roundTime(p, a, true, "Round") }
	opaqueStr := func(what string) intrinsicFn {
		return func(p *Path, a []Value, _ *ssa.CallCommon) Value { return p.fresh("opaque_"+what, SStr) }
	}
	I["(time.Time).String"] = opaqueStr("timeString")
	I["(time.Time).Format"] = func(p *Path, a []Value, _ *ssa.CallCommon) Value {
		// a concrete instant in UTC / a fixed zone with a concrete layout: host-evaluated
		if lt, ok := a[1].(*Term); ok {
			if layout, ok := lt.constStr(); ok {
				if ht, ok := hostTime(p, a[0].(TimeVal)); ok {
					if l, isPtr := a[0].(TimeVal).loc.(Ptr); isPtr && l.c != nil {
						for k, c := range p.locs {
							if c == l.c && (k == "UTC" || strings.HasPrefix(k, "fixed:")) {
								return mkStr(ht.Format(layout))
							}
						}
					}
				}
			}
		}
		return p.fresh("opaque_timeFormat", SStr)
	}
	I["(time.Duration).String"] = func(p *Path, a []Value, _ *ssa.CallCommon) Value {
		if d, ok := termOf(a[0]).constInt64(); ok {
			return mkStr(time.Duration(d).String())
		}
		return p.fresh("opaque_duration", SStr)
	}
	I["(*time.Location).String"] = func(p *Path, a []Value, _ *ssa.CallCommon) Value {
		if l, ok := a[0].(Ptr); ok && l.c != nil {
			for k, c := range p.locs {
				if c != l.c {
					continue
				}
				switch {
				case k == "UTC" || k == "Local":
					return mkStr(k)
				case strings.HasPrefix(k, "tz:"):
					return mkStr(k[3:])
				case strings.HasPrefix(k, "fixed:"):
					return mkStr(k[len("fixed:"):strings.LastIndex(k, ":")])
				}
			}
		}
		return p.fresh("opaque_locString", SStr)
	}
	// the message of a field validation error (formats its value through reflection):
	// only ever logged or compared for de-duplication, never parsed
	I["(*k8s.io/apimachinery/pkg/util/validation/field.Error).ErrorBody"] = opaqueStr("fieldErrorBody")
	// ErrorList.ToAggregate: nil for an empty list, otherwise one error whose message
	// (a de-duplicated rendering of the members) is opaque
	I["(k8s.io/apimachinery/pkg/util/validation/field.ErrorList).ToAggregate"] = func(p *Path, a []Value, _ *ssa.CallCommon) Value {
		if s, ok := a[0].(SliceVal); ok && s.len > 0 {
			return p.newErr(nil, nil, "fieldErrorAggregate")
		}
		return IfaceVal{}
	}
	floatOfDur := func(div float64) intrinsicFn {
		return func(p *Path, a []Value, _ *ssa.CallCommon) Value {
			if d, ok := termOf(a[0]).constInt64(); ok {
				return FloatVal{float64(d) / div}
			}
			return Poison{"float of symbolic duration"}
		}
	}
	I["(time.Duration).Seconds"] = floatOfDur(1e9)
	I["(time.Duration).Minutes"] = floatOfDur(60e9)
	I["(time.Duration).Hours"] = floatOfDur(3600e9)

	// ---------- sync ----------
	nop := func(p *Path, a []Value, _ *ssa.CallCommon) Value { return nil }
	for _, n := range []string{
		"(*sync.Mutex).Lock", "(*sync.Mutex).Unlock", "(*sync.RWMutex).Lock", "(*sync.RWMutex).Unlock",
		"(*sync.RWMutex).RLock", "(*sync.RWMutex).RUnlock", "(*sync.WaitGroup).Add", "(*sync.WaitGroup).Done",
		"(*sync.WaitGroup).Wait", "runtime.Gosched", "runtime.KeepAlive",
	} {
		I[n] = nop
	}
	I["(*sync.Mutex).TryLock"] = func(p *Path, a []Value, _ *ssa.CallCommon) Value { return tTrue }
	I["(*sync.Once).Do"] = func(p *Path, a []Value, site *ssa.CallCommon) Value {
		c := p.deref(a[0])
		if p.hostObjs[c] != nil {
			return nil
		}
		p.hostObjs[c] = true
		p.callValue(a[1], nil, site)
		return nil
	}
	smap := func(p *Path, v Value) *MapObj {
		c := p.deref(v)
		m := p.syncMaps[c]
		if m == nil {
			anyT := types.NewInterfaceType(nil, nil)
			m = newMap(anyT, anyT)
			p.syncMaps[c] = m
		}
		return m
	}
	skey := func(v Value) string {
		kk, ok := keyString(v)
		if !ok {
			panic(unsupported("sync.Map with symbolic key"))
		}
		return kk
	}
	I["(*sync.Map).Load"] = func(p *Path, a []Value, _ *ssa.CallCommon) Value {
		if e, ok := smap(p, a[0]).get(skey(a[1])); ok {
			return TupleVal{e.val, tTrue}
		}
		return TupleVal{IfaceVal{}, tFalse}
	}
	I["(*sync.Map).Store"] = func(p *Path, a []Value, _ *ssa.CallCommon) Value {
		smap(p, a[0]).set(a[1], skey(a[1]), a[2])
		return nil
	}
	I["(*sync.Map).LoadOrStore"] = func(p *Path, a []Value, _ *ssa.CallCommon) Value {
		m := smap(p, a[0])
		if e, ok := m.get(skey(a[1])); ok {
			return TupleVal{e.val, tTrue}
		}
		m.set(a[1], skey(a[1]), a[2])
		return TupleVal{a[2], tFalse}
	}
	I["(*sync.Map).LoadAndDelete"] = func(p *Path, a []Value, _ *ssa.CallCommon) Value {
		m := smap(p, a[0])
		if e, ok := m.get(skey(a[1])); ok {
			m.del(skey(a[1]))
			return TupleVal{e.val, tTrue}
		}
		return TupleVal{IfaceVal{}, tFalse}
	}
	I["(*sync.Map).Delete"] = func(p *Path, a []Value, _ *ssa.CallCommon) Value {
		smap(p, a[0]).del(skey(a[1]))
		return nil
	}
	I["(*sync.Map).Range"] = func(p *Path, a []Value, site *ssa.CallCommon) Value {
		m := smap(p, a[0])
		for _, e := range m.liveEntries() {
			if !e.live {
				continue
			}
			r := p.callValue(a[1], []Value{e.key, e.val}, site)
			if !p.branch(termOf(r)) {
				break
			}
		}
		return nil
	}

	// ---------- sync/atomic ----------
	atomicPre := func(p *Path, site *ssa.CallCommon) {
		if p.atomicHook == nil || p.inAtomicHook || p.atomicBudget <= 0 {
			return
		}
		if p.choose(2) == 1 {
			p.atomicBudget--
			p.inAtomicHook = true
			defer func() { p.inAtomicHook = false }()
			p.callValue(p.atomicHook, nil, site)
		}
	}
	addFn := func(t types.Type) intrinsicFn {
		return func(p *Path, a []Value, site *ssa.CallCommon) Value {
			atomicPre(p, site)
			c := p.deref(a[0])
			r := p.wrapCheck(mkAdd(termOf(c.load()), termOf(a[1])), t, "atomic add")
			c.store(r)
			return r
		}
	}
	loadFn := func(p *Path, a []Value, site *ssa.CallCommon) Value {
		atomicPre(p, site)
		return p.deref(a[0]).load()
	}
	storeFn := func(p *Path, a []Value, site *ssa.CallCommon) Value {
		atomicPre(p, site)
		p.deref(a[0]).store(a[1])
		return nil
	}
	casFn := func(p *Path, a []Value, site *ssa.CallCommon) Value {
		atomicPre(p, site)
		c := p.deref(a[0])
		if p.branch(p.valuesEqual(c.load(), a[1])) {
			c.store(a[2])
			return tTrue
		}
		return tFalse
	}
	I["sync/atomic.AddInt64"] = addFn(types.Typ[types.Int64])
	I["sync/atomic.AddInt32"] = addFn(types.Typ[types.Int32])
	I["sync/atomic.AddUint64"] = addFn(types.Typ[types.Uint64])
	I["sync/atomic.AddUint32"] = addFn(types.Typ[types.Uint32])
	for _, s := range []string{"Int64", "Int32", "Uint64", "Uint32", "Pointer", "Uintptr"} {
		I["sync/atomic.Load"+s] = loadFn
		I["sync/atomic.Store"+s] = storeFn
		I["sync/atomic.CompareAndSwap"+s] = casFn
	}

	// ---------- strings ----------
	I["strings.Split"] = func(p *Path, a []Value, _ *ssa.CallCommon) Value {
		sep := cstr(p, a[1], "Split sep")
		return p.strSlice(splitTerm(termOf(a[0]), sep, -1))
	}
	I["strings.SplitN"] = func(p *Path, a []Value, _ *ssa.CallCommon) Value {
		sep := cstr(p, a[1], "SplitN sep")
		n := p.concreteInt(a[2], "SplitN n")
		return p.strSlice(splitTerm(termOf(a[0]), sep, n))
	}
	I["strings.Join"] = func(p *Path, a []Value, _ *ssa.CallCommon) Value {
		s := a[0].(SliceVal)
		sep := termOf(a[1])
		r := mkStr("")
		for i := 0; i < s.len; i++ {
			if i > 0 {
				r = mkConcat(r, sep)
			}
			r = mkConcat(r, termOf(s.b.cells[s.off+i].load()))
		}
		return r
	}
	str2bool := func(host func(a, b string) bool, smtOp string, swap bool) intrinsicFn {
		return func(p *Path, a []Value, _ *ssa.CallCommon) Value {
			x, y := termOf(a[0]), termOf(a[1])
			if xs, ok := x.constStr(); ok {
				if ys, ok := y.constStr(); ok {
					return mkBool(host(xs, ys))
				}
			}
			if swap {
				return mk(smtOp, SBool, y, x)
			}
			return mk(smtOp, SBool, x, y)
		}
	}
	I["strings.Contains"] = str2bool(strings.Contains, "str.contains", false)
	I["strings.HasPrefix"] = func(p *Path, a []Value, _ *ssa.CallCommon) Value {
		x, y := termOf(a[0]), termOf(a[1])
		if ys, ok := y.constStr(); ok {
			parts := strParts(x)
			if s0, ok := parts[0].constStr(); ok && (len(parts) == 1 || len(s0) >= len(ys)) {
				return mkBool(strings.HasPrefix(s0, ys))
			}
		}
		return mk("str.prefixof", SBool, y, x)
	}
	I["strings.HasSuffix"] = str2bool(strings.HasSuffix, "str.suffixof", true)
	// host string functions distribute over ite trees with constant leaves
	var mapLeaves func(t *Term, f func(string) *Term) *Term
	mapLeaves = func(t *Term, f func(string) *Term) *Term {
		if s, ok := t.constStr(); ok {
			return f(s)
		}
		if t.op == "ite" && len(t.args) == 3 {
			return mkIte(t.args[0], mapLeaves(t.args[1], f), mapLeaves(t.args[2], f))
		}
		panic(unsupported("string arg: non-constant string"))
	}
	hostStr1 := func(f func(string) string) intrinsicFn {
		return func(p *Path, a []Value, _ *ssa.CallCommon) Value {
			return mapLeaves(termOf(a[0]), func(s string) *Term { return mkStr(f(s)) })
		}
	}
	I["strings.TrimSpace"] = hostStr1(strings.TrimSpace)
	I["strings.ToLower"] = hostStr1(strings.ToLower)
	I["strings.ToUpper"] = hostStr1(strings.ToUpper)
	I["strings.Title"] = hostStr1(strings.Title)
	hostStr2 := func(f func(a, b string) string) intrinsicFn {
		return func(p *Path, a []Value, _ *ssa.CallCommon) Value {
			y := cstr(p, a[1], "string arg")
			return mapLeaves(termOf(a[0]), func(s string) *Term { return mkStr(f(s, y)) })
		}
	}
	I["strings.TrimPrefix"] = hostStr2(strings.TrimPrefix)
	I["strings.TrimSuffix"] = hostStr2(strings.TrimSuffix)
	I["strings.Trim"] = hostStr2(strings.Trim)
	I["strings.TrimLeft"] = hostStr2(strings.TrimLeft)
	I["strings.TrimRight"] = hostStr2(strings.TrimRight)
	I["strings.ReplaceAll"] = func(p *Path, a []Value, _ *ssa.CallCommon) Value {
		return mkStr(strings.ReplaceAll(cstr(p, a[0], "ReplaceAll"), cstr(p, a[1], "ReplaceAll"), cstr(p, a[2], "ReplaceAll")))
	}
	I["strings.Replace"] = func(p *Path, a []Value, _ *ssa.CallCommon) Value {
		return mkStr(strings.Replace(cstr(p, a[0], "Replace"), cstr(p, a[1], "Replace"), cstr(p, a[2], "Replace"), p.concreteInt(a[3], "Replace n")))
	}
	// base64 (standard alphabet assumed for the receiver), constant input only
	I["(*encoding/base64.Encoding).DecodeString"] = func(p *Path, a []Value, _ *ssa.CallCommon) Value {
		in := cstr(p, a[1], "base64 DecodeString")
		out, err := base64.StdEncoding.DecodeString(in)
		bt := types.Typ[types.Uint8]
		b := &Backing{elem: bt, cells: make([]*Cell, len(out))}
		for i, c := range out {
			cell := newCell(bt)
			cell.v = mkInt(int64(c))
			b.cells[i] = cell
		}
		sl := SliceVal{b: b, len: len(out), cap: len(out)}
		if err != nil {
			return TupleVal{sl, p.newErr(mkStr(err.Error()), nil, "base64")}
		}
		return TupleVal{sl, IfaceVal{}}
	}
	I["strings.Repeat"] = func(p *Path, a []Value, _ *ssa.CallCommon) Value {
		return mkStr(strings.Repeat(cstr(p, a[0], "Repeat"), p.concreteInt(a[1], "Repeat n")))
	}
	I["strings.Fields"] = func(p *Path, a []Value, _ *ssa.CallCommon) Value {
		fs := strings.Fields(cstr(p, a[0], "Fields"))
		ts := make([]*Term, len(fs))
		for i, f := range fs {
			ts[i] = mkStr(f)
		}
		return p.strSlice(ts)
	}
	hostIdx := func(f func(a, b string) int) intrinsicFn {
		return func(p *Path, a []Value, _ *ssa.CallCommon) Value {
			return mkInt(int64(f(cstr(p, a[0], "string arg"), cstr(p, a[1], "string arg"))))
		}
	}
	I["strings.Index"] = hostIdx(strings.Index)
	I["strings.LastIndex"] = hostIdx(strings.LastIndex)
	I["strings.Count"] = hostIdx(strings.Count)
	I["strings.Compare"] = hostIdx(strings.Compare)
	I["strings.EqualFold"] = func(p *Path, a []Value, _ *ssa.CallCommon) Value {
		return mkBool(strings.EqualFold(cstr(p, a[0], "EqualFold"), cstr(p, a[1], "EqualFold")))
	}
	I["strings.IndexByte"] = func(p *Path, a []Value, _ *ssa.CallCommon) Value {
		return mkInt(int64(strings.IndexByte(cstr(p, a[0], "IndexByte"), byte(p.concreteInt(a[1], "IndexByte c")))))
	}
	I["unicode/utf8.RuneCountInString"] = func(p *Path, a []Value, _ *ssa.CallCommon) Value {
		return mkInt(int64(len([]rune(cstr(p, a[0], "RuneCount")))))
	}
	I["unicode/utf8.ValidString"] = func(p *Path, a []Value, _ *ssa.CallCommon) Value { return tTrue }

	// ---------- strconv ----------
	I["strconv.Itoa"] = func(p *Path, a []Value, _ *ssa.CallCommon) Value { return mkItoa(termOf(a[0])) }
	I["strconv.FormatInt"] = func(p *Path, a []Value, _ *ssa.CallCommon) Value {
		base := p.concreteInt(a[1], "FormatInt base")
		if c, ok := termOf(a[0]).constInt64(); ok {
			return mkStr(strconv.FormatInt(c, base))
		}
		if base != 10 {
			panic(unsupported("FormatInt symbolic non-decimal"))
		}
		return mkItoa(termOf(a[0]))
	}
	I["strconv.FormatBool"] = func(p *Path, a []Value, _ *ssa.CallCommon) Value {
		return mkIte(termOf(a[0]), mkStr("true"), mkStr("false"))
	}
	I["strconv.Quote"] = hostStr1(strconv.Quote)
	I["strconv.Atoi"] = func(p *Path, a []Value, _ *ssa.CallCommon) Value {
		return p.parseInt(termOf(a[0]), 64, "strconv.Atoi")
	}
	I["strconv.ParseInt"] = func(p *Path, a []Value, _ *ssa.CallCommon) Value {
		base := p.concreteInt(a[1], "ParseInt base")
		bits := p.concreteInt(a[2], "ParseInt bits")
		if bits == 0 {
			bits = 64
		}
		s := termOf(a[0])
		if cs, ok := s.constStr(); ok {
			v, err := strconv.ParseInt(cs, base, bits)
			if err != nil {
				return TupleVal{mkInt(v), p.newErr(mkStr(err.Error()), nil, "strconv")}
			}
			return TupleVal{mkInt(v), IfaceVal{}}
		}
		if base != 10 {
			panic(unsupported("ParseInt symbolic non-decimal"))
		}
		return p.parseInt(s, bits, "strconv.ParseInt")
	}
	I["strconv.ParseBool"] = func(p *Path, a []Value, _ *ssa.CallCommon) Value {
		v, err := strconv.ParseBool(cstr(p, a[0], "ParseBool"))
		if err != nil {
			return TupleVal{tFalse, p.newErr(mkStr(err.Error()), nil, "strconv")}
		}
		return TupleVal{mkBool(v), IfaceVal{}}
	}

	// ---------- fmt ----------
	I["fmt.Sprintf"] = func(p *Path, a []Value, _ *ssa.CallCommon) Value {
		s, _ := p.sprintf(a[0], a[1])
		return s
	}
	I["fmt.Sprint"] = func(p *Path, a []Value, _ *ssa.CallCommon) Value {
		args := a[0].(SliceVal)
		r := mkStr("")
		for i := 0; i < args.len; i++ {
			t, ok := p.fmtArg(args.b.cells[args.off+i].load(), 'v')
			if !ok {
				return p.fresh("opaque_sprint", SStr)
			}
			r = mkConcat(r, t)
		}
		return r
	}
	I["fmt.Errorf"] = func(p *Path, a []Value, _ *ssa.CallCommon) Value {
		s, wrapped := p.sprintf(a[0], a[1])
		return p.newErr(s, wrapped, "fmt")
	}
	for _, n := range []string{"fmt.Println", "fmt.Printf", "fmt.Print", "fmt.Fprintf", "fmt.Fprintln", "fmt.Fprint"} {
		I[n] = func(p *Path, a []Value, _ *ssa.CallCommon) Value { return TupleVal{mkInt(0), IfaceVal{}} }
	}

	// ---------- errors ----------
	I["errors.Is"] = func(p *Path, a []Value, site *ssa.CallCommon) Value { return p.errorsIs(a[0], a[1], site) }
	I["errors.As"] = func(p *Path, a []Value, site *ssa.CallCommon) Value { return p.errorsAs(a[0], a[1], site) }
	I["errors.Unwrap"] = func(p *Path, a []Value, site *ssa.CallCommon) Value { return p.unwrapErr(a[0], site) }
	pe := "github.com/pkg/errors."
	I[pe+"New"] = func(p *Path, a []Value, _ *ssa.CallCommon) Value { return p.newErr(termOf(a[0]), nil, "pkgerrors") }
	I[pe+"Errorf"] = func(p *Path, a []Value, _ *ssa.CallCommon) Value {
		s, w := p.sprintf(a[0], a[1])
		return p.newErr(s, w, "pkgerrors")
	}
	wrapf := func(withFmt bool) intrinsicFn {
		return func(p *Path, a []Value, _ *ssa.CallCommon) Value {
			iv := a[0].(IfaceVal)
			if iv.t == nil {
				return IfaceVal{}
			}
			var msg *Term
			if withFmt {
				msg, _ = p.sprintf(a[1], a[2])
			} else if len(a) > 1 {
				msg = termOf(a[1])
			} else {
				msg = mkStr("")
			}
			return p.newErr(mkConcat(msg, mkConcat(mkStr(": "), p.errText(iv))), iv, "pkgerrors")
		}
	}
	I[pe+"Wrapf"] = wrapf(true)
	I[pe+"Wrap"] = wrapf(false)
	I[pe+"WithMessage"] = wrapf(false)
	I[pe+"WithMessagef"] = wrapf(true)
	I[pe+"WithStack"] = func(p *Path, a []Value, _ *ssa.CallCommon) Value {
		iv := a[0].(IfaceVal)
		if iv.t == nil {
			return IfaceVal{}
		}
		return p.newErr(p.errText(iv), iv, "pkgerrors")
	}
	I[pe+"Cause"] = func(p *Path, a []Value, site *ssa.CallCommon) Value {
		cur := a[0].(IfaceVal)
		for i := 0; i < 50; i++ {
			if cur.t == nil {
				return cur
			}
			if eo, ok := cur.v.(*ErrObj); ok {
				if eo.kind != "pkgerrors" || eo.cause == nil {
					return cur
				}
				cur = eo.cause.(IfaceVal)
				continue
			}
			fn := p.eng.lookupMethod(cur.t, "Cause")
			if fn == nil {
				return cur
			}
			cur = p.callFunc(fn, []Value{cur.v}, nil, site).(IfaceVal)
		}
		return cur
	}
	I[pe+"Is"] = I["errors.Is"]
	I[pe+"As"] = I["errors.As"]
	I[pe+"Unwrap"] = I["errors.Unwrap"]

	// ---------- sort ----------
	I["sort.Slice"] = func(p *Path, a []Value, site *ssa.CallCommon) Value {
		p.sortSlice(a[0], a[1], site)
		return nil
	}
	I["sort.SliceStable"] = I["sort.Slice"]
	I["sort.Strings"] = func(p *Path, a []Value, site *ssa.CallCommon) Value {
		s := a[0].(SliceVal)
		p.insertionSort(s.len, func(i, j int) bool {
			x, y := termOf(s.b.cells[s.off+i].load()), termOf(s.b.cells[s.off+j].load())
			return p.branch(p.binop(token.LSS, x, y, nil, nil).(*Term))
		}, func(i, j int) {
			ci, cj := s.b.cells[s.off+i], s.b.cells[s.off+j]
			vi, vj := ci.load(), cj.load()
			ci.store(vj)
			cj.store(vi)
		})
		return nil
	}
	I["sort.Ints"] = func(p *Path, a []Value, site *ssa.CallCommon) Value {
		s := a[0].(SliceVal)
		p.insertionSort(s.len, func(i, j int) bool {
			return p.branch(mkLt(termOf(s.b.cells[s.off+i].load()), termOf(s.b.cells[s.off+j].load())))
		}, func(i, j int) {
			ci, cj := s.b.cells[s.off+i], s.b.cells[s.off+j]
			vi, vj := ci.load(), cj.load()
			ci.store(vj)
			cj.store(vi)
		})
		return nil
	}
	sortIface := func(p *Path, a []Value, site *ssa.CallCommon) Value {
		iv := a[0].(IfaceVal)
		call := func(name string, args ...Value) Value {
			fn := p.eng.lookupMethod(iv.t, name)
			return p.callFunc(fn, append([]Value{iv.v}, args...), nil, site)
		}
		n := p.concreteInt(call("Len"), "sort Len")
		p.insertionSort(n, func(i, j int) bool {
			return p.branch(termOf(call("Less", mkInt(int64(i)), mkInt(int64(j)))))
		}, func(i, j int) { call("Swap", mkInt(int64(i)), mkInt(int64(j))) })
		return nil
	}
	I["sort.Sort"] = sortIface
	I["sort.Stable"] = sortIface

	// ---------- context ----------
	ctxVal := func(p *Path, a []Value, _ *ssa.CallCommon) Value {
		return IfaceVal{t: hostCtxType, v: HostVal{"ctx"}}
	}
	I["context.Background"] = ctxVal
	I["context.TODO"] = ctxVal
	ctxWith := func(p *Path, a []Value, _ *ssa.CallCommon) Value {
		return TupleVal{a[0], FuncVal{bound: &BoundIntrinsic{name: "gosym.nop", recv: nil}}}
	}
	I["context.WithCancel"] = ctxWith
	I["context.WithTimeout"] = ctxWith
	I["context.WithDeadline"] = ctxWith
	I["gosym.nop"] = func(p *Path, a []Value, _ *ssa.CallCommon) Value { return nil }

	// ---------- equality helpers ----------
	deq := func(p *Path, a []Value, _ *ssa.CallCommon) Value { return p.deepEqual(a[0], a[1], 0) }
	I["reflect.DeepEqual"] = deq
	I["(*k8s.io/apimachinery/third_party/forked/golang/reflect.Equalities).DeepEqual"] = func(p *Path, a []Value, _ *ssa.CallCommon) Value {
		return p.deepEqual(a[1], a[2], 0)
	}
	I["(k8s.io/apimachinery/third_party/forked/golang/reflect.Equalities).DeepEqual"] = I["(*k8s.io/apimachinery/third_party/forked/golang/reflect.Equalities).DeepEqual"]

	I[repoMod+"/pkg/utils/cmp.IsJSONEqual"] = func(p *Path, a []Value, _ *ssa.CallCommon) Value {
		p.jsonEq++
		defer func() { p.jsonEq-- }()
		return TupleVal{p.deepEqual(a[0], a[1], 0), IfaceVal{}}
	}

	// ---------- regexp (host, concrete inputs only) ----------
	I["regexp.MustCompile"] = func(p *Path, a []Value, _ *ssa.CallCommon) Value {
		return HostVal{regexp.MustCompile(cstr(p, a[0], "regexp"))}
	}
	I["regexp.Compile"] = func(p *Path, a []Value, _ *ssa.CallCommon) Value {
		re, err := regexp.Compile(cstr(p, a[0], "regexp"))
		if err != nil {
			return TupleVal{Ptr{}, p.newErr(mkStr(err.Error()), nil, "regexp")}
		}
		return TupleVal{HostVal{re}, IfaceVal{}}
	}
	I["(*regexp.Regexp).MatchString"] = func(p *Path, a []Value, _ *ssa.CallCommon) Value {
		return mkBool(a[0].(HostVal).v.(*regexp.Regexp).MatchString(cstr(p, a[1], "MatchString")))
	}
	I["(*regexp.Regexp).ReplaceAllString"] = func(p *Path, a []Value, _ *ssa.CallCommon) Value {
		return mkStr(a[0].(HostVal).v.(*regexp.Regexp).ReplaceAllString(cstr(p, a[1], "ReplaceAllString"), cstr(p, a[2], "ReplaceAllString")))
	}
	I["(*regexp.Regexp).FindAllString"] = func(p *Path, a []Value, _ *ssa.CallCommon) Value {
		rs := a[0].(HostVal).v.(*regexp.Regexp).FindAllString(cstr(p, a[1], "FindAllString"), p.concreteInt(a[2], "n"))
		ts := make([]*Term, len(rs))
		for i, r := range rs {
			ts[i] = mkStr(r)
		}
		return p.strSlice(ts)
	}
	reStrSlice := func(name string, f func(re *regexp.Regexp, s string) []string) {
		I["(*regexp.Regexp)."+name] = func(p *Path, a []Value, _ *ssa.CallCommon) Value {
			rs := f(a[0].(HostVal).v.(*regexp.Regexp), cstr(p, a[1], name))
			if rs == nil {
				return SliceVal{}
			}
			ts := make([]*Term, len(rs))
			for i, r := range rs {
				ts[i] = mkStr(r)
			}
			return p.strSlice(ts)
		}
	}
	reStrSlice("FindStringSubmatch", func(re *regexp.Regexp, s string) []string { return re.FindStringSubmatch(s) })
	I["(*regexp.Regexp).FindString"] = func(p *Path, a []Value, _ *ssa.CallCommon) Value {
		return mkStr(a[0].(HostVal).v.(*regexp.Regexp).FindString(cstr(p, a[1], "FindString")))
	}
	I["(*regexp.Regexp).String"] = func(p *Path, a []Value, _ *ssa.CallCommon) Value {
		return mkStr(a[0].(HostVal).v.(*regexp.Regexp).String())
	}
}


var hostCtxType types.Type

func init() {
	hostCtxType = types.NewNamed(types.NewTypeName(0, nil, "gosymCtx", nil), types.NewStruct(nil, nil), nil)
}

func hostMethod(p *Path, hv HostVal, name string, args []Value) Value {
	if rt, ok := hv.v.(reflectTypeHost); ok {
		switch name {
		case "Elem":
			switch u := under(rt.t).(type) {
			case *types.Pointer:
				return IfaceVal{t: hostReflectType, v: HostVal{reflectTypeHost{u.Elem()}}}
			case *types.Slice:
				return IfaceVal{t: hostReflectType, v: HostVal{reflectTypeHost{u.Elem()}}}
			}
			panic(unsupported("reflect.Type.Elem"))
		case "Kind":
			return mkInt(reflectKind(rt.t))
		case "String", "Name":
			return mkStr(rt.t.String())
		}
	}
	if hv.v == "ctx" {
		switch name {
		case "Done":
			return ChanVal{}
		case "Err":
			return IfaceVal{}
		case "Value":
			return IfaceVal{}
		case "Deadline":
			return TupleVal{zeroValue(timeTypeHolder), tFalse}
		}
	}
	panic(unsupported("host method " + name))
}

var timeTypeHolder types.Type // set by the loader to time.Time

// ---------- time helpers ----------

func normTime(sec, nsec *Term) (*Term, *Term) {
	if n, ok := nsec.constInt(); ok && n.Sign() >= 0 && n.Cmp(big.NewInt(1e9)) < 0 {
		return sec, nsec
	}
	q := mkFloorDiv(nsec, mkInt(1e9))
	return mkAdd(sec, q), mkFloorMod(nsec, mkInt(1e9))
}

func timeLt(x, y TimeVal) *Term {
	return mkOr(mkLt(x.sec, y.sec), mkAnd(mkEq(x.sec, y.sec), mkLt(x.nsec, y.nsec)))
}

var maxDur = new(big.Int).SetInt64(1<<63 - 1)
var minDur = new(big.Int).SetInt64(-1 << 63)

func (p *Path) timeSub(x, y TimeVal) Value {
	d := mkAdd(mkMul(mkSub(x.sec, y.sec), mkInt(1e9)), mkSub(x.nsec, y.nsec))
	if c, ok := d.constInt(); ok {
		if c.Cmp(maxDur) > 0 {
			return mkBig(maxDur)
		}
		if c.Cmp(minDur) < 0 {
			return mkBig(minDur)
		}
		return d
	}
	return mkIte(mkGt(d, mkBig(maxDur)), mkBig(maxDur), mkIte(mkLt(d, mkBig(minDur)), mkBig(minDur), d))
}

func (p *Path) locPtr(name string) Value {
	if c, ok := p.locs[name]; ok {
		return Ptr{c}
	}
	c := newCell(p.eng.locationType)
	p.locs[name] = c
	return Ptr{c}
}

func (p *Path) freshInstant(what string) TimeVal {
	s := p.fresh(what+"_sec", SInt)
	n := p.fresh(what+"_nsec", SInt)
	p.addPC(mkAnd(mkLe(mkInt(0), s), mkLe(s, mkInt(1<<36)), mkLe(mkInt(0), n), mkLt(n, mkInt(1e9))))
	return TimeVal{sec: s, nsec: n, loc: p.locPtr("Local")}
}

// ---------- strings helpers ----------

func (p *Path) strSlice(ts []*Term) Value {
	st := types.Typ[types.String]
	b := &Backing{elem: st, cells: make([]*Cell, len(ts))}
	for i, t := range ts {
		c := newCell(st)
		c.v = t
		b.cells[i] = c
	}
	return SliceVal{b: b, len: len(ts), cap: len(ts)}
}

// splitTerm splits a segment string structurally. itoa holes cannot contain sep
// if sep has no digit or '-' characters.
func splitTerm(s *Term, sep string, n int) []*Term {
	if cs, ok := s.constStr(); ok {
		var parts []string
		if n < 0 {
			parts = strings.Split(cs, sep)
		} else {
			parts = strings.SplitN(cs, sep, n)
		}
		out := make([]*Term, len(parts))
		for i, x := range parts {
			out[i] = mkStr(x)
		}
		return out
	}
	if sep == "" || n >= 0 {
		panic(unsupported("split of symbolic string with empty sep or limit"))
	}
	for i := 0; i < len(sep); i++ {
		if isNumCh(sep[i]) {
			panic(unsupported("split of symbolic string by numeric separator"))
		}
	}
	if len(sep) > 1 {
		panic(unsupported("split of symbolic string by multi-char separator"))
	}
	out := []*Term{}
	cur := mkStr("")
	for _, part := range strParts(s) {
		switch {
		case part.isConst():
			fs := strings.Split(part.sv, sep)
			cur = mkConcat(cur, mkStr(fs[0]))
			for _, f := range fs[1:] {
				out = append(out, cur)
				cur = mkStr(f)
			}
		case part.op == "itoa":
			cur = mkConcat(cur, part)
		default:
			panic(unsupported("split of opaque symbolic string"))
		}
	}
	return append(out, cur)
}

// parseInt models strconv.Atoi / ParseInt(s, 10, bits) on a symbolic string.
func (p *Path) parseInt(s *Term, bits int, what string) Value {
	if cs, ok := s.constStr(); ok {
		v, err := strconv.ParseInt(cs, 10, bits)
		if err != nil {
			return TupleVal{mkInt(v), p.newErr(mkStr(err.Error()), nil, "strconv")}
		}
		return TupleVal{mkInt(v), IfaceVal{}}
	}
	// structural: a lone itoa hole parses back to its argument
	if s.op == "itoa" {
		ii := intInfo{bits, true}
		if p.branch(ii.inRange(s.args[0])) {
			return TupleVal{s.args[0], IfaceVal{}}
		}
		return TupleVal{mkInt(0), p.newErr(mkStr("value out of range"), nil, "strconv")}
	}
	neg := mk("str.prefixof", SBool, mkStr("-"), s)
	plus := mk("str.prefixof", SBool, mkStr("+"), s)
	body := mkIte(mkOr(neg, plus), mk("str.substr", SStr, s, mkInt(1), mkStrLen(s)), s)
	v := mk("str.to_int", SInt, body)
	ii := intInfo{bits, true}
	val := mkIte(neg, mkNeg(v), v)
	okc := mkAnd(mkGe(v, mkInt(0)), ii.inRange(val))
	if p.branch(okc) {
		return TupleVal{val, IfaceVal{}}
	}
	return TupleVal{mkInt(0), p.newErr(mkStr("parse error"), nil, "strconv")}
}

// fmtArg renders one operand for verbs v/s/d/t/q.
func (p *Path) fmtArg(v Value, verb byte) (*Term, bool) {
	iv, ok := v.(IfaceVal)
	if !ok {
		return nil, false
	}
	if iv.t == nil {
		return mkStr("<nil>"), true
	}
	switch x := iv.v.(type) {
	case *Term:
		// named types with String()/Error() methods are formatted through them by fmt
		if verb != 'd' && verb != 't' {
			if fn := p.eng.lookupMethod(iv.t, "Error"); fn != nil {
				r := p.callFunc(fn, []Value{iv.v}, nil, nil)
				return termOf(r), true
			}
			if fn := p.eng.lookupMethod(iv.t, "String"); fn != nil && fn.Signature.Params().Len() == 0 {
				r := p.callFunc(fn, []Value{iv.v}, nil, nil)
				return termOf(r), true
			}
		}
		switch x.sort {
		case SStr:
			if verb == 'q' {
				if s, ok := x.constStr(); ok {
					return mkStr(strconv.Quote(s)), true
				}
				return nil, false
			}
			return x, true
		case SInt:
			return mkItoa(x), true
		case SBool:
			return mkIte(x, mkStr("true"), mkStr("false")), true
		}
	case *ErrObj:
		return p.errText(iv), true
	case Ptr:
		if x.c == nil {
			return mkStr("<nil>"), true
		}
		if fn := p.eng.lookupMethod(iv.t, "Error"); fn != nil {
			return termOf(p.callFunc(fn, []Value{iv.v}, nil, nil)), true
		}
	}
	return nil, false
}

// sprintf returns the formatted string (opaque when an operand cannot be
// rendered) and the %w operand if any.
func (p *Path) sprintf(format Value, argsV Value) (*Term, Value) {
	var wrapped Value
	args, _ := argsV.(SliceVal)
	ft, ok := format.(*Term)
	var f string
	if ok {
		f, ok = ft.constStr()
	}
	getArg := func(i int) Value {
		if i < args.len {
			return args.b.cells[args.off+i].load()
		}
		return nil
	}
	if !ok {
		return p.fresh("opaque_fmt", SStr), nil
	}
	// find %w even if we go opaque
	out := mkStr("")
	opaque := false
	ai := 0
	minLen := 0
	for i := 0; i < len(f); i++ {
		c := f[i]
		if c != '%' {
			out = mkConcat(out, mkStr(string(c)))
			minLen++
			continue
		}
		i++
		if i >= len(f) {
			break
		}
		if f[i] == '%' {
			out = mkConcat(out, mkStr("%"))
			continue
		}
		// flags/width: treat as opaque if present
		j := i
		for j < len(f) && strings.IndexByte("+-# 0123456789.", f[j]) >= 0 {
			j++
		}
		if j >= len(f) {
			break
		}
		verb := f[j]
		hadFlags := j != i
		flagStr := f[i:j]
		// a width pads to at least that many characters
		if w := strings.TrimLeft(f[i:j], "+-# 0"); hadFlags && w != "" {
			if k := strings.IndexByte(w, '.'); k >= 0 {
				w = w[:k]
			}
			if n, err := strconv.Atoi(w); err == nil {
				minLen += n
			}
		}
		i = j
		arg := getArg(ai)
		ai++
		if verb == 'w' {
			wrapped = arg
			verb = 'v'
		}
		if arg == nil {
			opaque = true
			continue
		}
		if hadFlags && verb == 'd' {
			// a constant integer of a basic type with flags / width: formatted by the host
			if iv, ok := arg.(IfaceVal); ok && iv.t != nil {
				if _, basic := iv.t.(*types.Basic); basic {
					if tt, ok := iv.v.(*Term); ok && tt.sort == SInt {
						if n, ok := tt.constInt64(); ok {
							out = mkConcat(out, mkStr(fmt.Sprintf("%"+flagStr+"d", n)))
							continue
						}
					}
				}
			}
		}
		if hadFlags && !(verb == 'v' && f[j-1] == '+') {
			opaque = true
			continue
		}
		switch verb {
		case 'v', 's', 'd', 't', 'q':
			t, ok := p.fmtArg(arg, verb)
			if !ok {
				opaque = true
				continue
			}
			out = mkConcat(out, t)
		default:
			opaque = true
		}
	}
	if opaque {
		// function-consistent: the same format applied to the same argument terms is the same string
		key := f
		for i := 0; i < args.len; i++ {
			if t, ok := args.b.cells[args.off+i].load().(IfaceVal); ok {
				if tt, ok := t.v.(*Term); ok {
					key += "|" + tt.String()
					continue
				}
			}
			key = ""
			break
		}
		if key == "" {
			return p.fresh("opaque_fmt", SStr), wrapped
		}
		if p.opaqueFmts == nil {
			p.opaqueFmts = map[string]*Term{}
		}
		if t, ok := p.opaqueFmts[key]; ok {
			return t, wrapped
		}
		t := p.fresh("opaque_fmt", SStr)
		if minLen > 0 {
			p.addPC(mkLe(mkInt(int64(minLen)), mk("str.len", SInt, t)))
		}
		p.opaqueFmts[key] = t
		return t, wrapped
	}
	return out, wrapped
}

// ---------- errors ----------

var errObjType types.Type

func init() {
	errObjType = types.NewNamed(types.NewTypeName(0, nil, "gosymErr", nil), types.NewStruct(nil, nil), nil)
}

func (p *Path) newErr(msg *Term, cause Value, kind string) Value {
	eo := &ErrObj{msg: msg, kind: kind}
	if c, ok := cause.(IfaceVal); ok && c.t != nil {
		eo.cause = c
	}
	return IfaceVal{t: errObjType, v: eo}
}

func (p *Path) errObjMethod(eo *ErrObj, name string) Value {
	switch name {
	case "Error":
		if eo.msg == nil {
			eo.msg = p.fresh("opaque_err", SStr)
		}
		return eo.msg
	case "Unwrap", "Cause":
		if eo.cause == nil {
			return IfaceVal{}
		}
		return eo.cause
	}
	panic(unsupported("method " + name + " on engine error"))
}

func errObjImplements(eo *ErrObj, it *types.Interface) bool {
	for i := 0; i < it.NumMethods(); i++ {
		switch it.Method(i).Name() {
		case "Error":
		case "Unwrap":
		case "Cause":
			if eo.kind != "pkgerrors" {
				return false
			}
		default:
			return false
		}
	}
	return true
}

func (p *Path) errText(iv IfaceVal) *Term {
	if iv.t == nil {
		return mkStr("<nil>")
	}
	if eo, ok := iv.v.(*ErrObj); ok {
		return p.errObjMethod(eo, "Error").(*Term)
	}
	fn := p.eng.lookupMethod(iv.t, "Error")
	if fn == nil {
		return p.fresh("opaque_err", SStr)
	}
	var r Value
	func() {
		defer func() {
			if e := recover(); e != nil {
				if _, ok := e.(unsupportedErr); ok {
					r = p.fresh("opaque_err", SStr)
					return
				}
				panic(e)
			}
		}()
		r = p.callFunc(fn, []Value{iv.v}, nil, nil)
	}()
	return termOf(r)
}

func (p *Path) unwrapErr(v Value, site *ssa.CallCommon) Value {
	iv := v.(IfaceVal)
	if iv.t == nil {
		return iv
	}
	if eo, ok := iv.v.(*ErrObj); ok {
		if eo.cause == nil {
			return IfaceVal{}
		}
		return eo.cause
	}
	fn := p.eng.lookupMethod(iv.t, "Unwrap")
	if fn == nil || fn.Signature.Results().Len() != 1 {
		return IfaceVal{}
	}
	if _, isIface := under(fn.Signature.Results().At(0).Type()).(*types.Interface); !isIface {
		return IfaceVal{}
	}
	return p.callFunc(fn, []Value{iv.v}, nil, site)
}

func (p *Path) errorsIs(e, target Value, site *ssa.CallCommon) Value {
	cur := e.(IfaceVal)
	tg := target.(IfaceVal)
	for i := 0; i < 50; i++ {
		if cur.t == nil {
			return mkBool(tg.t == nil)
		}
		if tg.t != nil {
			eq := func() (r *Term) {
				defer func() {
					if x := recover(); x != nil {
						if _, ok := x.(unsupportedErr); ok {
							r = tFalse
							return
						}
						panic(x)
					}
				}()
				return p.valuesEqual(cur, tg)
			}()
			if p.branch(eq) {
				return tTrue
			}
		}
		if _, isE := cur.v.(*ErrObj); !isE {
			if fn := p.eng.lookupMethod(cur.t, "Is"); fn != nil && fn.Signature.Params().Len() == 1 {
				if p.branch(termOf(p.callFunc(fn, []Value{cur.v, tg}, nil, site))) {
					return tTrue
				}
			}
		}
		cur = p.unwrapErr(cur, site).(IfaceVal)
	}
	return tFalse
}

func (p *Path) errorsAs(e, target Value, site *ssa.CallCommon) Value {
	cur := e.(IfaceVal)
	tiv := target.(IfaceVal)
	if tiv.t == nil {
		p.goPanicf("errors: target cannot be nil")
	}
	pt, ok := under(tiv.t).(*types.Pointer)
	if !ok {
		p.goPanicf("errors: target must be a non-nil pointer")
	}
	want := pt.Elem()
	cell := p.deref(tiv.v)
	for i := 0; i < 50; i++ {
		if cur.t == nil {
			return tFalse
		}
		r := p.typeAssert(cur, want, true).(TupleVal)
		if b, _ := r[1].(*Term).constBool(); b {
			cell.store(r[0])
			return tTrue
		}
		if _, isE := cur.v.(*ErrObj); !isE {
			if fn := p.eng.lookupMethod(cur.t, "As"); fn != nil && fn.Signature.Params().Len() == 1 {
				if p.branch(termOf(p.callFunc(fn, []Value{cur.v, tiv}, nil, site))) {
					return tTrue
				}
			}
		}
		cur = p.unwrapErr(cur, site).(IfaceVal)
	}
	return tFalse
}

// ---------- sort ----------

func (p *Path) insertionSort(n int, less func(i, j int) bool, swap func(i, j int)) {
	if n > 12 {
		panic(unsupported("sort of more than 12 elements (insertion-sort model)"))
	}
	for i := 1; i < n; i++ {
		for j := i; j > 0 && less(j, j-1); j-- {
			swap(j, j-1)
		}
	}
}

func (p *Path) sortSlice(x Value, lessV Value, site *ssa.CallCommon) {
	iv := x.(IfaceVal)
	s, ok := iv.v.(SliceVal)
	if !ok {
		panic(unsupported("sort.Slice of non-slice"))
	}
	p.insertionSort(s.len, func(i, j int) bool {
		r := p.callValue(lessV, []Value{mkInt(int64(i)), mkInt(int64(j))}, site)
		return p.branch(termOf(r))
	}, func(i, j int) {
		ci, cj := s.b.cells[s.off+i], s.b.cells[s.off+j]
		vi, vj := ci.load(), cj.load()
		ci.store(vj)
		cj.store(vi)
	})
}

// ---------- deep equality over the memory model ----------

func (p *Path) deepEqual(a, b Value, depth int) *Term {
	if depth > 60 {
		panic(unsupported("deepEqual depth"))
	}
	switch x := a.(type) {
	case nil:
		if b == nil {
			return tTrue
		}
	case IfaceVal:
		y, ok := b.(IfaceVal)
		if !ok {
			return tFalse
		}
		if x.t == nil || y.t == nil {
			return mkBool(x.t == nil && y.t == nil)
		}
		if !types.Identical(x.t, y.t) {
			return tFalse
		}
		return p.deepEqual(x.v, y.v, depth+1)
	case Ptr:
		y, ok := b.(Ptr)
		if !ok {
			return tFalse
		}
		if x.c == nil || y.c == nil {
			return mkBool(x.c == nil && y.c == nil)
		}
		if x.c == y.c {
			return tTrue
		}
		return p.deepEqual(x.c.load(), y.c.load(), depth+1)
	case StructVal:
		y, ok := b.(StructVal)
		if !ok {
			return tFalse
		}
		st := under(x.t).(*types.Struct)
		var cs []*Term
		for i := 0; i < st.NumFields(); i++ {
			c := p.deepEqual(x.field(i), y.field(i), depth+1)
			if v, ok := c.constBool(); ok && !v {
				if os.Getenv("GOSYM_DEBUG_EQ") != "" {
					fmt.Fprintf(os.Stderr, "deepEqual: field %s of %v differs (%s vs %s)\n", st.Field(i).Name(), x.t, describe(x.field(i)), describe(y.field(i)))
				}
				return tFalse
			}
			cs = append(cs, c)
		}
		return mkAnd(cs...)
	case ArrayVal:
		y, ok := b.(ArrayVal)
		if !ok {
			return tFalse
		}
		n := int(under(x.t).(*types.Array).Len())
		var cs []*Term
		for i := 0; i < n; i++ {
			cs = append(cs, p.deepEqual(x.elem(i), y.elem(i), depth+1))
		}
		return mkAnd(cs...)
	case SliceVal:
		y, ok := b.(SliceVal)
		if !ok {
			return tFalse
		}
		if p.jsonEq == 0 && (x.b == nil) != (y.b == nil) {
			return tFalse
		}
		if x.len != y.len {
			return tFalse
		}
		var cs []*Term
		for i := 0; i < x.len; i++ {
			cs = append(cs, p.deepEqual(x.b.cells[x.off+i].load(), y.b.cells[y.off+i].load(), depth+1))
		}
		return mkAnd(cs...)
	case MapVal:
		y, ok := b.(MapVal)
		if !ok {
			return tFalse
		}
		if p.jsonEq > 0 {
			xl, yl := 0, 0
			if x.m != nil {
				xl = x.m.length()
			}
			if y.m != nil {
				yl = y.m.length()
			}
			if xl == 0 && yl == 0 {
				return tTrue
			}
		}
		if (x.m == nil) != (y.m == nil) {
			return tFalse
		}
		if x.m == nil {
			return tTrue
		}
		if x.m.length() != y.m.length() {
			return tFalse
		}
		var cs []*Term
		for _, e := range x.m.liveEntries() {
			f, ok := y.m.get(e.kk)
			if !ok {
				return tFalse
			}
			cs = append(cs, p.deepEqual(e.val, f.val, depth+1))
		}
		return mkAnd(cs...)
	case TimeVal:
		y, ok := b.(TimeVal)
		if !ok {
			return tFalse
		}
		return mkAnd(mkEq(x.sec, y.sec), mkEq(x.nsec, y.nsec))
	case *Term, FloatVal, FuncVal, ChanVal, HostVal, *ErrObj:
		return p.valuesEqual(a, b)
	}
	panic(unsupported(fmt.Sprintf("deepEqual of %T and %T", a, b)))
}

func mergeValuesOrFork(p *Path, c *Term, a, b Value) (r Value) {
	defer func() {
		if e := recover(); e != nil {
			if _, ok := e.(specAbort); ok {
				if p.branch(c) {
					r = a
				} else {
					r = b
				}
				return
			}
			panic(e)
		}
	}()
	return mergeValues(c, a, b)
}

// assumeFeasible ends the path if pc && c is unsatisfiable (skipped while
// replaying a known-feasible prefix, and when the current model already satisfies c).
func (p *Path) assumeFeasible(c *Term) {
	p.flushAsserts()
	if p.pos < len(p.prefix) {
		return
	}
	if v, ok := p.evalUnderModel(c); ok && v {
		return
	}
	p.s.tag = "assume"
	if p.s.CheckWith(c) == Unsat {
		panic(pathEnd{"assume-false"})
	}
}

type hostIntEntry struct {
	k int64
	v string
}

var hostIntCache sync.Map

// hostIntEntries returns the table entries name/prefix<k> sorted by k; k must be contiguous.
func (e *Engine) hostIntEntries(name, prefix string) []hostIntEntry {
	key := name + "\x00" + prefix
	if v, ok := hostIntCache.Load(key); ok {
		return v.([]hostIntEntry)
	}
	var out []hostIntEntry
	for k, v := range e.hostTable {
		if strings.HasPrefix(k, key) {
			if n, err := strconv.ParseInt(k[len(key):], 10, 64); err == nil {
				out = append(out, hostIntEntry{n, v})
			}
		}
	}
	sort.Slice(out, func(i, j int) bool { return out[i].k < out[j].k })
	hostIntCache.Store(key, out)
	return out
}

// ---------- reflect-lite: just what ConfigManager.LoadAndUnmarshalConfig needs ----------

// ReflectVal models a reflect.Value: the wrapped value, its static type and, when
// addressable, the cell it lives in.
type ReflectVal struct {
	v    Value
	t    types.Type
	cell *Cell
}

type reflectTypeHost struct{ t types.Type }

var hostReflectType types.Type

func reflectKind(t types.Type) int64 {
	switch u := under(t).(type) {
	case *types.Basic:
		switch {
		case u.Info()&types.IsBoolean != 0:
			return 1
		case u.Kind() == types.Int:
			return 2
		case u.Kind() == types.Int64:
			return 6
		case u.Info()&types.IsString != 0:
			return 24
		}
		return 2
	case *types.Interface:
		return 20
	case *types.Map:
		return 21
	case *types.Pointer:
		return 22
	case *types.Slice:
		return 23
	case *types.Struct:
		return 25
	}
	return 0
}

func init() {
	hostReflectType = types.NewNamed(types.NewTypeName(0, nil, "gosymReflectType", nil), types.NewStruct(nil, nil), nil)
	I := intrinsics
	I["reflect.ValueOf"] = func(p *Path, a []Value, _ *ssa.CallCommon) Value {
		iv, ok := a[0].(IfaceVal)
		if !ok || iv.t == nil {
			return ReflectVal{}
		}
		return ReflectVal{v: iv.v, t: iv.t}
	}
	I["(reflect.Value).Kind"] = func(p *Path, a []Value, _ *ssa.CallCommon) Value {
		rv := a[0].(ReflectVal)
		if rv.t == nil {
			return mkInt(0)
		}
		return mkInt(reflectKind(rv.t))
	}
	I["(reflect.Value).Elem"] = func(p *Path, a []Value, _ *ssa.CallCommon) Value {
		rv := a[0].(ReflectVal)
		pt, ok := under(rv.t).(*types.Pointer)
		if !ok {
			panic(unsupported("reflect.Value.Elem of non-pointer"))
		}
		ptr := rv.v.(Ptr)
		if ptr.c == nil {
			return ReflectVal{}
		}
		return ReflectVal{v: nil, t: pt.Elem(), cell: ptr.c}
	}
	I["(reflect.Value).CanAddr"] = func(p *Path, a []Value, _ *ssa.CallCommon) Value {
		return mkBool(a[0].(ReflectVal).cell != nil)
	}
	I["(reflect.Value).Type"] = func(p *Path, a []Value, _ *ssa.CallCommon) Value {
		rv := a[0].(ReflectVal)
		return IfaceVal{t: hostReflectType, v: HostVal{reflectTypeHost{rv.t}}}
	}
	I["reflect.Indirect"] = func(p *Path, a []Value, _ *ssa.CallCommon) Value {
		rv := a[0].(ReflectVal)
		if pt, ok := under(rv.t).(*types.Pointer); ok {
			ptr := rv.v.(Ptr)
			if ptr.c == nil {
				return ReflectVal{}
			}
			return ReflectVal{t: pt.Elem(), cell: ptr.c}
		}
		return rv
	}
	I["(reflect.Value).Set"] = func(p *Path, a []Value, _ *ssa.CallCommon) Value {
		dst := a[0].(ReflectVal)
		src := a[1].(ReflectVal)
		if dst.cell == nil {
			p.goPanicf("reflect: reflect.Value.Set using unaddressable value")
		}
		var val Value
		if src.cell != nil {
			val = src.cell.load()
		} else {
			val = src.v
		}
		if !types.AssignableTo(src.t, dst.t) {
			p.goPanicf("reflect.Set: value of type %v is not assignable to type %v", src.t, dst.t)
		}
		if _, isI := under(dst.t).(*types.Interface); isI {
			val = IfaceVal{t: src.t, v: val}
		}
		p.specCheckStore(dst.cell)
		dst.cell.store(val)
		return nil
	}
}
