package main

// Value model: scalars are *Term; object shape (pointers, lengths, key sets,
// dynamic types) is concrete per path.

import (
	"fmt"
	"go/types"
	"math/big"
	"sort"
	"strings"

	"golang.org/x/tools/go/ssa"
)

type Value interface{}

type FloatVal struct{ f float64 }

// Cell is an addressable location. Aggregates (struct/array) hold kids.
type Cell struct {
	t    types.Type
	v    Value
	kids []*Cell // struct fields / array elements, created lazily (nil => all zero)
	agg  bool
	id   int64
}

type Ptr struct{ c *Cell }

type StructVal struct {
	t types.Type
	f []Value // nil => zero value
}

type ArrayVal struct {
	t types.Type // *types.Array
	e []Value
}

type Backing struct {
	cells []*Cell
	elem  types.Type
}

type SliceVal struct {
	b             *Backing
	off, len, cap int
}

type mapEntry struct {
	key  Value
	kk   string
	val  Value
	live bool
}

type MapObj struct {
	keyT, elemT types.Type
	slots       []*mapEntry // slot order; deleted entries have live=false and may be reused
	idx         map[string]*mapEntry
	id          int
}

type MapVal struct{ m *MapObj } // m==nil => nil map

type IfaceVal struct {
	t types.Type // dynamic type, nil => nil interface
	v Value
}

type Closure struct {
	fn   *ssa.Function
	free []Value
}

type FuncVal struct {
	fn      *ssa.Function
	builtin *ssa.Builtin
	clo     *Closure
	bound   *BoundIntrinsic
}

type BoundIntrinsic struct {
	name string
	recv Value
}

type ChanObj struct {
	buf []Value
	cap int
	closed bool
}
type ChanVal struct{ c *ChanObj }

type TupleVal []Value

// TimeVal is the intrinsic model of time.Time: (unix seconds, nanoseconds in [0,1e9), location).
type TimeVal struct {
	sec, nsec *Term
	loc       Value // Ptr
}

// ErrObj: engine-native error values produced by fmt.Errorf / pkg/errors intrinsics.
type ErrObj struct {
	msg   *Term
	cause Value // IfaceVal or nil
	kind  string
}

// RangeIter for map/string iteration
type RangeIter struct {
	m     *MapObj
	order []*mapEntry
	pos   int
	str   string
	isStr bool
}

// Opaque host object (e.g. *regexp.Regexp)
type HostVal struct{ v interface{} }

type Poison struct{ why string }

const zeroTimeSec = -62135596800

func isTimeType(t types.Type) bool {
	if n, ok := types.Unalias(t).(*types.Named); ok {
		o := n.Obj()
		return o.Pkg() != nil && o.Pkg().Path() == "time" && o.Name() == "Time"
	}
	return false
}

func isNamed(t types.Type, pkg, name string) bool {
	if n, ok := types.Unalias(t).(*types.Named); ok {
		o := n.Obj()
		return o.Pkg() != nil && o.Pkg().Path() == pkg && o.Name() == name
	}
	return false
}

func under(t types.Type) types.Type { return types.Unalias(t).Underlying() }

func zeroValue(t types.Type) Value {
	if isTimeType(t) {
		return TimeVal{sec: mkInt(zeroTimeSec), nsec: mkInt(0), loc: Ptr{}}
	}
	switch u := under(t).(type) {
	case *types.Basic:
		switch {
		case u.Info()&types.IsBoolean != 0:
			return tFalse
		case u.Info()&types.IsInteger != 0:
			return mkInt(0)
		case u.Info()&types.IsString != 0:
			return mkStr("")
		case u.Info()&types.IsFloat != 0:
			return FloatVal{0}
		case u.Kind() == types.UnsafePointer:
			return Ptr{}
		case u.Kind() == types.UntypedNil:
			return nil
		}
		return Poison{"zero of " + u.String()}
	case *types.Pointer:
		return Ptr{}
	case *types.Slice:
		return SliceVal{}
	case *types.Map:
		return MapVal{}
	case *types.Chan:
		return ChanVal{}
	case *types.Signature:
		return FuncVal{}
	case *types.Interface:
		return IfaceVal{}
	case *types.Struct:
		return StructVal{t: t}
	case *types.Array:
		return ArrayVal{t: t}
	case *types.Tuple:
		tv := make(TupleVal, u.Len())
		for i := range tv {
			tv[i] = zeroValue(u.At(i).Type())
		}
		return tv
	}
	return Poison{"zero of " + t.String()}
}

func newCell(t types.Type) *Cell {
	c := &Cell{t: t, id: nextCellID()}
	if !isTimeType(t) {
		switch under(t).(type) {
		case *types.Struct, *types.Array:
			c.agg = true
		}
	}
	if !c.agg {
		c.v = zeroValue(t)
	}
	return c
}

func (c *Cell) ensureKids() {
	if c.kids != nil {
		return
	}
	switch u := under(c.t).(type) {
	case *types.Struct:
		c.kids = make([]*Cell, u.NumFields())
		for i := range c.kids {
			c.kids[i] = newCell(u.Field(i).Type())
			c.kids[i].id = c.id // lazily materialised parts are as old as their object
		}
	case *types.Array:
		c.kids = make([]*Cell, u.Len())
		for i := range c.kids {
			c.kids[i] = newCell(u.Elem())
			c.kids[i].id = c.id
		}
	}
}

func (c *Cell) load() Value {
	if !c.agg {
		return c.v
	}
	switch under(c.t).(type) {
	case *types.Struct:
		if c.kids == nil {
			return StructVal{t: c.t}
		}
		f := make([]Value, len(c.kids))
		for i, k := range c.kids {
			f[i] = k.load()
		}
		return StructVal{t: c.t, f: f}
	default:
		if c.kids == nil {
			return ArrayVal{t: c.t}
		}
		e := make([]Value, len(c.kids))
		for i, k := range c.kids {
			e[i] = k.load()
		}
		return ArrayVal{t: c.t, e: e}
	}
}

// store writes v into the cell. Aggregate cells keep the identity of their
// field/element cells (pointers to fields taken earlier stay valid).
func (c *Cell) store(v Value) {
	if !c.agg {
		c.v = v
		return
	}
	switch x := v.(type) {
	case StructVal:
		if x.f == nil {
			c.zeroInPlace()
			return
		}
		c.ensureKids()
		for i, k := range c.kids {
			k.store(x.f[i])
		}
	case ArrayVal:
		if x.e == nil {
			c.zeroInPlace()
			return
		}
		c.ensureKids()
		for i, k := range c.kids {
			k.store(x.e[i])
		}
	case Poison:
		c.zeroInPlace()
	default:
		panic(unsupported(fmt.Sprintf("store %T into aggregate cell %v", v, c.t)))
	}
}

func (c *Cell) zeroInPlace() {
	if !c.agg {
		c.v = zeroValue(c.t)
		return
	}
	for _, k := range c.kids {
		k.zeroInPlace()
	}
}

func (s StructVal) field(i int) Value {
	if s.f == nil {
		return zeroValue(under(s.t).(*types.Struct).Field(i).Type())
	}
	return s.f[i]
}

func (a ArrayVal) elem(i int) Value {
	if a.e == nil {
		return zeroValue(under(a.t).(*types.Array).Elem())
	}
	return a.e[i]
}

// ---- maps ----

func keyString(v Value) (string, bool) {
	switch x := v.(type) {
	case *Term:
		if !x.isConst() {
			return "", false
		}
		switch x.sort {
		case SStr:
			return "s:" + x.sv, true
		case SInt:
			return "i:" + x.iv.String(), true
		default:
			if x.bv {
				return "b:1", true
			}
			return "b:0", true
		}
	case Ptr:
		return fmt.Sprintf("p:%p", x.c), true
	case StructVal:
		n := under(x.t).(*types.Struct).NumFields()
		parts := make([]string, n)
		for i := 0; i < n; i++ {
			s, ok := keyString(x.field(i))
			if !ok {
				return "", false
			}
			parts[i] = s
		}
		return "{" + strings.Join(parts, ",") + "}", true
	case IfaceVal:
		if x.t == nil {
			return "nil", true
		}
		s, ok := keyString(x.v)
		return "I(" + x.t.String() + ")" + s, ok
	case ArrayVal:
		n := int(under(x.t).(*types.Array).Len())
		parts := make([]string, n)
		for i := 0; i < n; i++ {
			s, ok := keyString(x.elem(i))
			if !ok {
				return "", false
			}
			parts[i] = s
		}
		return "[" + strings.Join(parts, ",") + "]", true
	}
	return "", false
}

func newMap(k, e types.Type) *MapObj {
	return &MapObj{keyT: k, elemT: e, idx: map[string]*mapEntry{}}
}

func (m *MapObj) get(kk string) (*mapEntry, bool) {
	e, ok := m.idx[kk]
	return e, ok
}

func (m *MapObj) set(key Value, kk string, val Value) {
	if e, ok := m.idx[kk]; ok {
		e.val = val
		return
	}
	e := &mapEntry{key: key, kk: kk, val: val, live: true}
	// go1.23 small-map model: a new key takes the first free slot
	for i, s := range m.slots {
		if !s.live && i < 8 {
			m.slots[i] = e
			m.idx[kk] = e
			return
		}
	}
	m.slots = append(m.slots, e)
	m.idx[kk] = e
}

func (m *MapObj) del(kk string) {
	if e, ok := m.idx[kk]; ok {
		e.live = false
		delete(m.idx, kk)
	}
}

func (m *MapObj) length() int { return len(m.idx) }

func (m *MapObj) liveEntries() []*mapEntry {
	var out []*mapEntry
	for _, s := range m.slots {
		if s.live {
			out = append(out, s)
		}
	}
	return out
}

func (m *MapObj) sortedEntries() []*mapEntry {
	out := m.liveEntries()
	sort.SliceStable(out, func(i, j int) bool { return out[i].kk < out[j].kk })
	return out
}

// ---- int type info ----

type intInfo struct {
	bits   int
	signed bool
}

func intInfoOf(t types.Type) (intInfo, bool) {
	b, ok := under(t).(*types.Basic)
	if !ok || b.Info()&types.IsInteger == 0 {
		return intInfo{}, false
	}
	switch b.Kind() {
	case types.Int8:
		return intInfo{8, true}, true
	case types.Int16:
		return intInfo{16, true}, true
	case types.Int32:
		return intInfo{32, true}, true
	case types.Int64, types.Int, types.UntypedInt, types.UntypedRune:
		return intInfo{64, true}, true
	case types.Uint8:
		return intInfo{8, false}, true
	case types.Uint16:
		return intInfo{16, false}, true
	case types.Uint32:
		return intInfo{32, false}, true
	case types.Uint64, types.Uint, types.Uintptr:
		return intInfo{64, false}, true
	}
	return intInfo{}, false
}

func (ii intInfo) min() *big.Int {
	if !ii.signed {
		return big.NewInt(0)
	}
	return new(big.Int).Neg(new(big.Int).Lsh(big.NewInt(1), uint(ii.bits-1)))
}
func (ii intInfo) max() *big.Int {
	if ii.signed {
		return new(big.Int).Sub(new(big.Int).Lsh(big.NewInt(1), uint(ii.bits-1)), big.NewInt(1))
	}
	return new(big.Int).Sub(new(big.Int).Lsh(big.NewInt(1), uint(ii.bits)), big.NewInt(1))
}
func (ii intInfo) wrap(x *big.Int) *big.Int {
	mod := new(big.Int).Lsh(big.NewInt(1), uint(ii.bits))
	r := new(big.Int).Mod(x, mod)
	if ii.signed && r.Cmp(ii.max()) > 0 {
		r.Sub(r, mod)
	}
	return r
}
func (ii intInfo) inRange(t *Term) *Term {
	return mkAnd(mkLe(mkBig(ii.min()), t), mkLe(t, mkBig(ii.max())))
}

func describe(v Value) string {
	switch x := v.(type) {
	case nil:
		return "nil"
	case *Term:
		s := x.String()
		if len(s) > 200 {
			s = s[:200] + "..."
		}
		return s
	case Ptr:
		if x.c == nil {
			return "nilptr"
		}
		return fmt.Sprintf("&%v", x.c.t)
	case TimeVal:
		return "time(" + describe(x.sec) + "," + describe(x.nsec) + ")"
	case IfaceVal:
		if x.t == nil {
			return "nil-iface"
		}
		return "iface(" + x.t.String() + ")"
	}
	return fmt.Sprintf("%T", v)
}
