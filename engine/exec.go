package main

// Path-at-a-time symbolic interpreter over go/ssa. Exploration is by
// re-execution from the harness entry under a decision prefix (no state
// copying): every non-constant branch / choice is a "decision"; decisions inside
// the prefix are followed without solver calls, new ones are checked for
// feasibility and the untaken feasible alternatives are queued as new prefixes.

import (
	"fmt"
	"os"
	"strconv"
	"sync"
	"go/constant"
	"go/token"
	"go/types"
	"math/big"
	"strings"

	"golang.org/x/tools/go/ssa"
)

type unsupportedErr struct{ msg string }

func unsupported(msg string) unsupportedErr { return unsupportedErr{msg} }

type pathEnd struct{ reason string }

type goPanic struct {
	val  Value
	desc string
}

type deferred struct {
	fn   Value
	args []Value
	call *ssa.CallCommon
}

type Frame struct {
	fn        *ssa.Function
	env       []Value
	idx       map[ssa.Value]int
	defers    []deferred
	panicking *goPanic
	visits    map[*ssa.BasicBlock]int
	caller    *Frame
	envParent *Frame
}

type Input struct {
	Name string `json:"name"`
	Kind string `json:"kind"` // int, bool, str
	v    *Term
}

type Failure struct {
	AssertID string            `json:"assert_id"`
	Kind     string            `json:"kind"` // assert, panic, inconclusive
	Inputs   []ReplayInput     `json:"inputs"`
	Observes map[string]string `json:"observes"`
	Findings []string          `json:"findings"`
	Covers   []string          `json:"covers"`
	Prefix   []int             `json:"prefix"`
	Detail   string            `json:"detail,omitempty"`
}

type ReplayInput struct {
	Name  string `json:"name"`
	Kind  string `json:"kind"`
	Value string `json:"value"`
}

type Observation struct {
	name string
	v    *Term
}

type Path struct {
	eng    *Engine
	s      *Solver
	prefix []int
	pos    int
	forks  [][]int
	pc     []*Term

	globals map[*ssa.Global]*Cell
	// process-dependent sources (hash/maphash seeds, ...): one symbol per (process epoch, source, argument)
	epoch    int
	procRand map[string]*Term
	opaqueFmts map[string]*Term
	inited  map[*ssa.Package]bool
	syncMaps map[*Cell]*MapObj
	hostObjs map[*Cell]interface{}

	inputs   []Input
	observes []Observation
	findings []string
	covers   map[string]bool
	wrapObl  []wrapOb

	mapOrderNondet bool
	steps    int
	depth    int
	panicFrames []*Frame
	inInit   int
	freshCtr int
	atomicHook Value
	atomicBudget int
	inAtomicHook bool

	failures []*Failure
	status   string // done, assume-false, infeasible, unwind, unsupported:..., panic
	asserts, discharged int
	detail   string
	funcsSeen map[*ssa.Function]int
	locs map[string]*Cell
	spec *specState
	failedAsserts int
	nondetMaps map[*MapObj]int
	initBase int
	inTimeNow bool
	decided map[string]bool
	curFn string
	freshBools map[string]bool
	pending []pendingAssert
	model map[string]*Term
	modelMemo map[*Term]*Term
	jsonEq int
	merges int
}

type wrapOb struct {
	cond *Term
	desc string
}

func (p *Path) fresh(prefix string, s Sort) *Term {
	p.freshCtr++
	return mkVar(fmt.Sprintf("%s!%d", sanitize(prefix), p.freshCtr), s)
}

func sanitize(s string) string {
	var sb strings.Builder
	for _, c := range s {
		if (c >= 'a' && c <= 'z') || (c >= 'A' && c <= 'Z') || (c >= '0' && c <= '9') || c == '_' {
			sb.WriteRune(c)
		} else {
			sb.WriteByte('_')
		}
	}
	return sb.String()
}

func (p *Path) addPC(c *Term) {
	if p.spec != nil {
		panic(specAbort{"path condition in speculation"})
	}
	if v, ok := c.constBool(); ok {
		if !v {
			panic(pathEnd{"infeasible"})
		}
		return
	}
	p.pc = append(p.pc, c)
	p.s.Assert(c)
	if len(p.freshBools) > 0 {
		vm := map[string]*Term{}
		collectVars(c, map[*Term]bool{}, vm)
		for n := range vm {
			delete(p.freshBools, n)
		}
	}
	if p.model != nil {
		if v, ok := p.evalUnderModel(c); !ok || !v {
			p.model = nil
		}
	}
}

func (p *Path) decide(conds []*Term) int { return p.decideX(conds, false) }

// decideX: with allFeasible the caller guarantees every alternative is
// satisfiable together with the path condition (fresh unconstrained input).
func (p *Path) decideX(conds []*Term, allFeasible bool) int {
	if p.spec != nil {
		panic(specAbort{"decision in speculation"})
	}
	if p.pos < len(p.prefix) {
		i := p.prefix[p.pos]
		p.pos++
		if i >= len(conds) {
			panic(fmt.Sprintf("decision replay mismatch: %d of %d", i, len(conds)))
		}
		p.addPC(conds[i])
		return i
	}
	if !allFeasible && len(conds) == 2 && conds[0].op == "var" && p.freshBools[conds[0].sv] {
		allFeasible = true
	}
	if allFeasible {
		for i := 1; i < len(conds); i++ {
			np := make([]int, p.pos+1)
			copy(np, p.prefix[:p.pos])
			np[p.pos] = i
			p.forks = append(p.forks, np)
		}
		p.prefix = append(p.prefix[:p.pos], 0)
		p.pos++
		p.addPC(conds[0])
		return 0
	}
	// model-guided feasibility: the side the current model satisfies is feasible for free
	keep := -1
	if !p.eng.noModelGuide {
		allConst := true
		for _, c := range conds {
			if !c.isConst() {
				allConst = false
			}
		}
		if !allConst {
			if p.model == nil {
				p.fetchModel()
			}
			if p.model != nil {
				for i, c := range conds {
					if v, ok := p.evalUnderModel(c); ok && v {
						keep = i
						break
					}
				}
			}
		}
	}
	var feas []int
	for i, c := range conds {
		if i == keep {
			feas = append(feas, i)
			continue
		}
		if v, ok := c.constBool(); ok {
			if v {
				feas = append(feas, i)
			}
			continue
		}
		if keep < 0 && i == len(conds)-1 && len(feas) == 0 {
			feas = append(feas, i)
			break
		}
		p.s.tag = "decide:" + p.curFn
		if r := p.s.CheckWith(c); r != Unsat {
			feas = append(feas, i)
		}
	}
	if len(feas) == 0 {
		panic(pathEnd{"infeasible"})
	}
	chosen := feas[0]
	if keep >= 0 {
		chosen = keep
	} else {
		p.model = nil
	}
	for _, i := range feas {
		if i == chosen {
			continue
		}
		np := make([]int, p.pos+1)
		copy(np, p.prefix[:p.pos])
		np[p.pos] = i
		p.forks = append(p.forks, np)
	}
	p.prefix = append(p.prefix[:p.pos], chosen)
	p.pos++
	savedModel := p.model
	p.addPC(conds[chosen])
	p.model = savedModel // the chosen side holds under the model by construction
	return chosen
}

// fetchModel asks the solver for a model of the current path condition.
func (p *Path) fetchModel() {
	p.s.tag = "fetchModel"
	if p.s.Check() != Sat {
		p.model = nil
		return
	}
	p.model = p.s.GetValues(p.allVars())
	p.modelMemo = map[*Term]*Term{}
}

// evalUnderModel evaluates a boolean term under the current model; variables the
// model does not mention take (and keep) default values.
func (p *Path) evalUnderModel(c *Term) (bool, bool) {
	if p.model == nil {
		return false, false
	}
	seen := map[*Term]bool{}
	vars := map[string]*Term{}
	collectVars(c, seen, vars)
	for n, v := range vars {
		if _, ok := p.model[n]; !ok {
			switch v.sort {
			case SBool:
				p.model[n] = tFalse
			case SInt:
				p.model[n] = mkInt(0)
			default:
				p.model[n] = mkStr("")
			}
		}
	}
	r := evalTerm(c, p.model, p.modelMemo)
	return r.constBool()
}

func (p *Path) branch(c *Term) bool {
	if v, ok := c.constBool(); ok {
		return v
	}
	// a condition already decided on this path needs neither a decision nor a query
	key := ""
	if c.size <= 48 && p.spec == nil {
		key = c.String()
		if v, ok := p.decided[key]; ok {
			return v
		}
	}
	r := p.decide([]*Term{c, mkNot(c)}) == 0
	if key != "" {
		if p.decided == nil {
			p.decided = map[string]bool{}
		}
		p.decided[key] = r
	}
	return r
}

// choose among n alternatives, all feasible.
func (p *Path) choose(n int) int {
	if n <= 1 {
		return 0
	}
	conds := make([]*Term, n)
	for i := range conds {
		conds[i] = tTrue
	}
	return p.decide(conds)
}

func (p *Path) goPanicf(format string, a ...interface{}) {
	msg := fmt.Sprintf(format, a...)
	panic(&goPanic{val: IfaceVal{t: types.Typ[types.String], v: mkStr(msg)}, desc: msg})
}

// ---- model / failures ----

func (p *Path) allVars() []*Term {
	seen := map[*Term]bool{}
	vars := map[string]*Term{}
	for _, c := range p.pc {
		collectVars(c, seen, vars)
	}
	for _, in := range p.inputs {
		collectVars(in.v, seen, vars)
	}
	for _, o := range p.observes {
		collectVars(o.v, seen, vars)
	}
	out := make([]*Term, 0, len(vars))
	for _, v := range vars {
		out = append(out, v)
	}
	return out
}

// recordFailure must be called right after a Sat Check() in the current solver scope.
func (p *Path) recordFailure(id, kind, detail string, extra ...*Term) *Failure {
	vars := p.allVars()
	seen := map[*Term]bool{}
	vm := map[string]*Term{}
	for _, v := range vars {
		vm[v.sv] = v
	}
	for _, e := range extra {
		collectVars(e, seen, vm)
	}
	vars = vars[:0]
	for _, v := range vm {
		vars = append(vars, v)
	}
	model := p.s.GetValues(vars)
	f := p.failureFromModel(id, kind, detail, model)
	p.failures = append(p.failures, f)
	return f
}

func (p *Path) failureFromModel(id, kind, detail string, model map[string]*Term) *Failure {
	f := &Failure{AssertID: id, Kind: kind, Detail: detail, Observes: map[string]string{}}
	memo := map[*Term]*Term{}
	for _, in := range p.inputs {
		v := evalTerm(in.v, model, memo)
		f.Inputs = append(f.Inputs, ReplayInput{Name: in.Name, Kind: in.Kind, Value: constText(v)})
	}
	for _, o := range p.observes {
		v := evalTerm(o.v, model, memo)
		if v.isConst() && v.sort == SStr {
			f.Observes[o.name] = strconv.Quote(v.sv)
		} else {
			f.Observes[o.name] = constText(v)
		}
	}
	f.Findings = append([]string{}, p.findings...)
	for c := range p.covers {
		f.Covers = append(f.Covers, c)
	}
	f.Prefix = append([]int{}, p.prefix[:p.pos]...)
	return f
}

func constText(t *Term) string {
	if !t.isConst() {
		return "?" + t.String()
	}
	switch t.sort {
	case SBool:
		if t.bv {
			return "true"
		}
		return "false"
	case SInt:
		return t.iv.String()
	}
	return t.sv
}

type pendingAssert struct {
	c  *Term
	id string
}

// assert defers the obligation: pending assertions are discharged together by
// one query at the next point where the path condition is strengthened by
// something other than a branch decision (Assume / input range), and at the end
// of the path. Decisions partition the inputs among sibling paths that all
// carry the same pending assertions, so checking under the later path
// condition loses nothing.
func (p *Path) assert(c *Term, id string) {
	p.asserts++
	if v, ok := c.constBool(); ok {
		if v {
			p.discharged++
			return
		}
		// violated on this (feasible) path: report it and go on, as the native harness does
		p.s.Push()
		if p.s.Check() != Unsat {
			p.recordFailure(id, "assert", "")
		}
		p.s.Pop()
		p.failedAsserts++
		return
	}
	p.pending = append(p.pending, pendingAssert{c, id})
}

// flushAsserts discharges the pending assertions with one query; if that query is
// satisfiable each assertion is checked on its own so that every violated one is
// reported (assertions never constrain the path).
func (p *Path) flushAsserts() {
	if len(p.pending) == 0 {
		return
	}
	pend := p.pending
	p.pending = nil
	cs := make([]*Term, len(pend))
	for i, pa := range pend {
		cs[i] = pa.c
	}
	p.s.tag = "flush"
	if len(pend) > 1 {
		if r := p.s.CheckWith(mkNot(mkAnd(cs...))); r == Unsat {
			p.discharged += len(pend)
			return
		}
	}
	for _, pa := range pend {
		p.s.Push()
		p.s.Assert(mkNot(pa.c))
		switch p.s.Check() {
		case Unsat:
			p.discharged++
		case Sat:
			p.recordFailure(pa.id, "assert", "", pa.c)
			p.failedAsserts++
		default:
			p.failures = append(p.failures, &Failure{AssertID: pa.id, Kind: "inconclusive", Detail: "solver unknown", Prefix: append([]int{}, p.prefix[:p.pos]...)})
		}
		p.s.Pop()
	}
}

// ---- values from SSA ----

func (p *Path) constValue(c *ssa.Const) Value {
	t := c.Type()
	if c.Value == nil {
		return zeroValue(t)
	}
	switch u := under(t).(type) {
	case *types.Basic:
		switch {
		case u.Info()&types.IsBoolean != 0:
			return mkBool(constant.BoolVal(c.Value))
		case u.Info()&types.IsInteger != 0:
			v := constant.ToInt(c.Value)
			if i, ok := constant.Int64Val(v); ok {
				return mkInt(i)
			}
			bi, _ := new(big.Int).SetString(v.ExactString(), 10)
			return mkBig(bi)
		case u.Info()&types.IsString != 0:
			return mkStr(constant.StringVal(c.Value))
		case u.Info()&types.IsFloat != 0:
			f, _ := constant.Float64Val(c.Value)
			return FloatVal{f}
		}
	case *types.Interface:
		return IfaceVal{}
	}
	panic(unsupported("const of type " + t.String()))
}

func (p *Path) get(fr *Frame, v ssa.Value) Value {
	switch x := v.(type) {
	case *ssa.Const:
		return p.constValue(x)
	case *ssa.Global:
		return Ptr{p.globalCell(x)}
	case *ssa.Function:
		return FuncVal{fn: x}
	case *ssa.Builtin:
		return FuncVal{builtin: x}
	case nil:
		return nil
	}
	if i, ok := fr.idx[v]; ok {
		return fr.env[i]
	}
	panic(fmt.Sprintf("no value for %s in %s", v.Name(), fr.fn))
}

func (p *Path) globalCell(g *ssa.Global) *Cell {
	if c, ok := p.globals[g]; ok {
		return c
	}
	p.ensureInit(g.Pkg)
	if c, ok := p.globals[g]; ok {
		return c
	}
	c := newCell(g.Type().(*types.Pointer).Elem())
	p.globals[g] = c
	return c
}

// ensureInit lazily runs a package's synthesized init (global initialisers and
// init functions) in tolerant mode: calls that cannot be executed leave zero /
// poison in their targets.
func (p *Path) ensureInit(pkg *ssa.Package) {
	if pkg == nil || p.inited[pkg] {
		return
	}
	p.inited[pkg] = true
	// allocate all globals first so init stores land in them
	for _, m := range pkg.Members {
		if g, ok := m.(*ssa.Global); ok {
			if _, ok := p.globals[g]; !ok {
				p.globals[g] = newCell(g.Type().(*types.Pointer).Elem())
			}
		}
	}
	if p.eng.skipInit(pkg) {
		p.eng.specialInit(p, pkg)
		return
	}
	initFn := pkg.Func("init")
	if initFn == nil {
		return
	}
	pkg.Build()
	if initFn.Blocks == nil {
		return
	}
	p.inInit++
	savedBase := p.initBase
	p.initBase = p.depth
	defer func() { p.initBase = savedBase }()
	savedSteps := p.steps
	func() {
		defer func() {
			if r := recover(); r != nil {
				switch r.(type) {
				case unsupportedErr, *goPanic:
					// tolerated
					if os.Getenv("GOSYM_DEBUG") != "" {
						fmt.Fprintf(os.Stderr, "init of %s aborted: %v\n", pkg.Pkg.Path(), r)
					}
				default:
					panic(r)
				}
			}
		}()
		p.callBody(initFn, nil, nil)
	}()
	p.steps = savedSteps
	p.inInit--
}

// ---- calls ----

func (p *Path) callValue(fv Value, args []Value, site *ssa.CallCommon) Value {
	switch f := fv.(type) {
	case FuncVal:
		switch {
		case f.fn != nil:
			return p.callFunc(f.fn, args, nil, site)
		case f.clo != nil:
			return p.callFunc(f.clo.fn, args, f.clo.free, site)
		case f.bound != nil:
			return p.callIntrinsicName(f.bound.name, append([]Value{f.bound.recv}, args...), site)
		case f.builtin != nil:
			panic(unsupported("call of builtin value " + f.builtin.Name()))
		}
		p.goPanicf("call of nil function")
	case Poison:
		panic(unsupported("call of poison function: " + f.why))
	}
	panic(unsupported(fmt.Sprintf("call of %T", fv)))
}

func (p *Path) callIntrinsicName(name string, args []Value, site *ssa.CallCommon) Value {
	p.specForbid("bound intrinsic")
	if in, ok := intrinsics[name]; ok {
		return in(p, args, site)
	}
	panic(unsupported("no intrinsic " + name))
}

// sinkResult: zero results, except that interface results are an opaque sink
// object whose methods are sinks too (e.g. prometheus Observer).
func sinkResult(sig *types.Signature) Value {
	res := sig.Results()
	one := func(t types.Type) Value {
		if _, ok := under(t).(*types.Interface); ok {
			return IfaceVal{t: hostCtxType, v: HostVal{"sink"}}
		}
		return zeroValue(t)
	}
	switch res.Len() {
	case 0:
		return nil
	case 1:
		return one(res.At(0).Type())
	}
	tv := make(TupleVal, res.Len())
	for i := range tv {
		tv[i] = one(res.At(i).Type())
	}
	return tv
}

func resultZero(fn *ssa.Function) Value {
	res := fn.Signature.Results()
	switch res.Len() {
	case 0:
		return nil
	case 1:
		return zeroValue(res.At(0).Type())
	}
	return zeroValue(res)
}

func (p *Path) callFunc(fn *ssa.Function, args []Value, free []Value, site *ssa.CallCommon) Value {
	if fn.Synthetic == "package initializer" {
		return nil // dependencies are initialised lazily when one of their globals is touched
	}
	fi := p.eng.funcInfoOf(fn)
	name := fi.name
	if fi.intrinsic != nil {
		if p.spec != nil && !fi.pure {
			panic(specAbort{"impure intrinsic " + name})
		}
		return fi.intrinsic(p, args, site)
	}
	if fi.sink {
		return sinkResult(fn.Signature)
	}
	// bodies are built lazily per package; Build is idempotent and synchronises with a
	// concurrent builder (never read fn.Blocks of a package that may be mid-build)
	if fn.Pkg != nil {
		fn.Pkg.Build()
	} else if o := fn.Origin(); o != nil && o.Pkg != nil {
		o.Pkg.Build()
	} else if pf := fn.Parent(); pf != nil && pf.Pkg != nil {
		pf.Pkg.Build()
	}
	if fn.Blocks == nil {
		panic(unsupported("no body: " + name))
	}
	if !fi.allowed {
		panic(unsupported("call outside allow-list: " + name))
	}
	return p.callBody(fn, args, free)
}

func (fr *Frame) set(v ssa.Value, val Value) { fr.env[fr.idx[v]] = val }

// valueIndex numbers the SSA values of fn (parameters, free variables, value-producing
// instructions) once; frames use a slice indexed by that number as environment.
func (fi *funcInfo) valueIndex(fn *ssa.Function) map[ssa.Value]int {
	fi.once.Do(func() {
		m := make(map[ssa.Value]int, 64)
		for _, p := range fn.Params {
			m[p] = len(m)
		}
		for _, fv := range fn.FreeVars {
			m[fv] = len(m)
		}
		for _, b := range fn.Blocks {
			for _, ins := range b.Instrs {
				if v, ok := ins.(ssa.Value); ok {
					m[v] = len(m)
				}
			}
		}
		if fn.Recover != nil {
			for _, ins := range fn.Recover.Instrs {
				if v, ok := ins.(ssa.Value); ok {
					if _, seen := m[v]; !seen {
						m[v] = len(m)
					}
				}
			}
		}
		fi.index = m
	})
	return fi.index
}

type funcInfo struct {
	once      sync.Once
	index     map[ssa.Value]int
	name      string
	intrinsic intrinsicFn
	pure      bool
	sink      bool
	allowed   bool
}

var funcInfoCache sync.Map

func (e *Engine) funcInfoOf(fn *ssa.Function) *funcInfo {
	if v, ok := funcInfoCache.Load(fn); ok {
		return v.(*funcInfo)
	}
	fi := &funcInfo{}
	fi.name = fn.String()
	if fn.Origin() != nil {
		fi.name = fn.Origin().String()
	}
	if in, ok := intrinsics[fi.name]; ok {
		fi.intrinsic = in
		fi.pure = isPureIntrinsic(fi.name)
	}
	pkg := funcPkgPath(fn)
	fi.allowed = true
	if pkg != "" {
		fi.sink = e.isSink(pkg, fi.name)
		fi.allowed = e.allowed(pkg) || allowFuncs[fi.name] || (fn.Parent() != nil && allowFuncs[fn.Parent().String()])
	}
	funcInfoCache.Store(fn, fi)
	return fi
}

func funcPkgPath(fn *ssa.Function) string {
	if fn.Pkg != nil {
		return fn.Pkg.Pkg.Path()
	}
	if o := fn.Origin(); o != nil && o.Pkg != nil {
		return o.Pkg.Pkg.Path()
	}
	if fn.Object() != nil && fn.Object().Pkg() != nil {
		return fn.Object().Pkg().Path()
	}
	if fn.Parent() != nil {
		return funcPkgPath(fn.Parent())
	}
	return ""
}

func (p *Path) callBody(fn *ssa.Function, args []Value, free []Value) (ret Value) {
	p.depth++
	if p.depth > 400 {
		panic(unsupported("call depth exceeded at " + fn.String()))
	}
	defer func() { p.depth-- }()
	if p.funcsSeen != nil {
		p.funcsSeen[fn]++
	}
	idx := p.eng.funcInfoOf(fn).valueIndex(fn)
	fr := &Frame{fn: fn, env: make([]Value, len(idx)), idx: idx, visits: map[*ssa.BasicBlock]int{}}
	if len(args) != len(fn.Params) {
		panic(fmt.Sprintf("arg count mismatch calling %s: %d vs %d", fn, len(args), len(fn.Params)))
	}
	for i, prm := range fn.Params {
		fr.set(prm, args[i])
	}
	for i, fv := range fn.FreeVars {
		fr.set(fv, free[i])
	}
	func() {
		defer func() {
			if r := recover(); r != nil {
				gp, ok := r.(*goPanic)
				if !ok {
					panic(r)
				}
				fr.panicking = gp
			}
		}()
		ret = p.execFrom(fr, fn.Blocks[0])
	}()
	if fr.panicking != nil {
		p.runDefers(fr)
		if fr.panicking != nil {
			panic(fr.panicking)
		}
		if fn.Recover != nil {
			return p.execFrom(fr, fn.Recover)
		}
		return resultZero(fn)
	}
	return ret
}

func (p *Path) runDefers(fr *Frame) {
	if len(fr.defers) > 0 {
		p.specForbid("run defers")
	}
	for len(fr.defers) > 0 {
		d := fr.defers[len(fr.defers)-1]
		fr.defers = fr.defers[:len(fr.defers)-1]
		p.panicFrames = append(p.panicFrames, fr)
		func() {
			defer func() { p.panicFrames = p.panicFrames[:len(p.panicFrames)-1] }()
			p.doCall(d.call, d.fn, d.args)
		}()
	}
}

func (p *Path) doCall(cc *ssa.CallCommon, fv Value, args []Value) Value {
	if cc.IsInvoke() {
		return p.invoke(fv, cc.Method, args, cc)
	}
	if b, ok := cc.Value.(*ssa.Builtin); ok {
		return p.builtin(b, args, cc)
	}
	return p.callValue(fv, args, cc)
}

func (p *Path) invoke(recv Value, m *types.Func, args []Value, site *ssa.CallCommon) Value {
	iv, ok := recv.(IfaceVal)
	if !ok {
		if _, isP := recv.(Poison); isP {
			panic(unsupported("invoke on poison: " + m.Name()))
		}
		panic(fmt.Sprintf("invoke on %T", recv))
	}
	if iv.t == nil {
		p.goPanicf("nil interface method call %s", m.Name())
	}
	if eo, ok := iv.v.(*ErrObj); ok {
		return p.errObjMethod(eo, m.Name())
	}
	if hv, ok := iv.v.(HostVal); ok {
		if hv.v == "sink" {
			return sinkResult(m.Type().(*types.Signature))
		}
		return hostMethod(p, hv, m.Name(), args)
	}
	fn := p.eng.lookupMethod(iv.t, m.Name())
	if fn == nil {
		panic(unsupported(fmt.Sprintf("no method %s on %v", m.Name(), iv.t)))
	}
	return p.callFunc(fn, append([]Value{iv.v}, args...), nil, site)
}

// ---- main loop ----

func (p *Path) execFrom(fr *Frame, b *ssa.BasicBlock) Value {
	var prev *ssa.BasicBlock
	phisBound := false
	for {
		skipPhis := phisBound
		phisBound = false
		fr.visits[b]++
		if fr.visits[b] > p.eng.loopBound {
			panic(pathEnd{"unwind:" + fr.fn.String()})
		}
		var next *ssa.BasicBlock
		for _, ins := range b.Instrs {
			p.steps++
			if p.steps > p.eng.stepBound {
				panic(pathEnd{"unwind:steps"})
			}
			switch x := ins.(type) {
			case *ssa.Phi:
				if skipPhis {
					continue
				}
				for i, pred := range b.Preds {
					if pred == prev {
						fr.set(x, p.get(fr, x.Edges[i]))
						break
					}
				}
			case *ssa.If:
				c := p.get(fr, x.Cond)
				ct, ok := c.(*Term)
				if !ok {
					panic(unsupported(fmt.Sprintf("branch on %T in %s", c, fr.fn)))
				}
				p.curFn = fr.fn.Name()
				if !ct.isConst() {
					if j, ok := p.tryMerge(fr, b, ct); ok {
						next = j
						phisBound = true
						break
					}
				}
				if p.branch(ct) {
					next = b.Succs[0]
				} else {
					next = b.Succs[1]
				}
			case *ssa.Jump:
				next = b.Succs[0]
			case *ssa.Return:
				switch len(x.Results) {
				case 0:
					return nil
				case 1:
					return p.get(fr, x.Results[0])
				}
				tv := make(TupleVal, len(x.Results))
				for i, r := range x.Results {
					tv[i] = p.get(fr, r)
				}
				return tv
			case *ssa.Panic:
				v := p.get(fr, x.X)
				panic(&goPanic{val: v, desc: "explicit panic in " + fr.fn.String() + ": " + p.panicText(v)})
			case *ssa.RunDefers:
				p.runDefers(fr)
			default:
				p.step(fr, ins)
			}
		}
		if next == nil {
			panic(fmt.Sprintf("block without terminator in %s", fr.fn))
		}
		prev, b = b, next
	}
}

func (p *Path) panicText(v Value) string {
	if iv, ok := v.(IfaceVal); ok {
		if t, ok := iv.v.(*Term); ok {
			return t.String()
		}
		if eo, ok := iv.v.(*ErrObj); ok && eo.msg != nil {
			return eo.msg.String()
		}
		if iv.t != nil {
			return iv.t.String()
		}
	}
	return describe(v)
}

func (p *Path) step(fr *Frame, ins ssa.Instruction) {
	switch x := ins.(type) {
	case *ssa.DebugRef:
	case *ssa.Alloc:
		fr.set(x, Ptr{newCell(x.Type().(*types.Pointer).Elem())})
	case *ssa.UnOp:
		fr.set(x, p.unop(fr, x))
	case *ssa.BinOp:
		fr.set(x, p.binop(x.Op, p.get(fr, x.X), p.get(fr, x.Y), x.X.Type(), x.Type()))
	case *ssa.Store:
		addr := p.get(fr, x.Addr)
		cell := p.deref(addr)
		p.specCheckStore(cell)
		cell.store(p.get(fr, x.Val))
	case *ssa.FieldAddr:
		base := p.deref(p.get(fr, x.X))
		if !base.agg {
			panic(unsupported(fmt.Sprintf("FieldAddr into intrinsic type %v (in %s)", base.t, fr.fn)))
		}
		base.ensureKids()
		fr.set(x, Ptr{base.kids[x.Field]})
	case *ssa.Field:
		v := p.get(fr, x.X)
		sv, ok := v.(StructVal)
		if !ok {
			panic(unsupported(fmt.Sprintf("Field of %T in %s", v, fr.fn)))
		}
		fr.set(x, sv.field(x.Field))
	case *ssa.IndexAddr:
		fr.set(x, p.indexAddr(fr, x))
	case *ssa.Index:
		fr.set(x, p.index(fr, x))
	case *ssa.Call:
		fr.set(x, p.callInstr(fr, &x.Call))
	case *ssa.Defer:
		p.specForbid("defer")
		fv, args := p.prepCall(fr, &x.Call)
		fr.defers = append(fr.defers, deferred{fn: fv, args: args, call: &x.Call})
	case *ssa.Go:
		panic(unsupported("go statement in " + fr.fn.String()))
	case *ssa.Extract:
		t := p.get(fr, x.Tuple)
		tv, ok := t.(TupleVal)
		if !ok {
			if pz, isP := t.(Poison); isP {
				fr.set(x, pz)
				return
			}
			panic(fmt.Sprintf("extract from %T in %s", t, fr.fn))
		}
		fr.set(x, tv[x.Index])
	case *ssa.MakeInterface:
		fr.set(x, IfaceVal{t: x.X.Type(), v: p.get(fr, x.X)})
	case *ssa.ChangeInterface:
		fr.set(x, p.get(fr, x.X))
	case *ssa.ChangeType:
		fr.set(x, p.changeType(p.get(fr, x.X), x.Type()))
	case *ssa.Convert:
		fr.set(x, p.convert(p.get(fr, x.X), x.X.Type(), x.Type()))
	case *ssa.MultiConvert:
		fr.set(x, p.convert(p.get(fr, x.X), x.X.Type(), x.Type()))
	case *ssa.TypeAssert:
		fr.set(x, p.typeAssert(p.get(fr, x.X), x.AssertedType, x.CommaOk))
	case *ssa.MakeClosure:
		free := make([]Value, len(x.Bindings))
		for i, b := range x.Bindings {
			free[i] = p.get(fr, b)
		}
		fr.set(x, FuncVal{clo: &Closure{fn: x.Fn.(*ssa.Function), free: free}})
	case *ssa.MakeMap:
		mt := under(x.Type()).(*types.Map)
		fr.set(x, MapVal{newMap(mt.Key(), mt.Elem())})
	case *ssa.MakeSlice:
		st := under(x.Type()).(*types.Slice)
		n := p.concreteInt(p.get(fr, x.Len), "make slice len")
		c := p.concreteInt(p.get(fr, x.Cap), "make slice cap")
		if n < 0 || c < n {
			p.goPanicf("makeslice: len out of range")
		}
		if c > 1<<16 {
			panic(unsupported("huge make slice"))
		}
		b := &Backing{elem: st.Elem(), cells: make([]*Cell, c)}
		for i := range b.cells {
			b.cells[i] = newCell(st.Elem())
		}
		fr.set(x, SliceVal{b: b, len: n, cap: c})
	case *ssa.MakeChan:
		n := p.concreteInt(p.get(fr, x.Size), "make chan size")
		fr.set(x, ChanVal{&ChanObj{cap: n}})
	case *ssa.Slice:
		fr.set(x, p.sliceOp(fr, x))
	case *ssa.SliceToArrayPointer:
		panic(unsupported("SliceToArrayPointer"))
	case *ssa.Lookup:
		fr.set(x, p.lookup(fr, x))
	case *ssa.MapUpdate:
		p.specForbid("map update")
		m := p.get(fr, x.Map).(MapVal)
		if m.m == nil {
			p.goPanicf("assignment to entry in nil map")
		}
		k := p.get(fr, x.Key)
		kk, ok := keyString(k)
		if !ok {
			panic(unsupported("map update with symbolic key in " + fr.fn.String()))
		}
		m.m.set(k, kk, p.get(fr, x.Value))
	case *ssa.Range:
		fr.set(x, p.rangeStart(p.get(fr, x.X)))
	case *ssa.Next:
		fr.set(x, p.rangeNext(p.get(fr, x.Iter).(*RangeIter), x))
	case *ssa.Select:
		p.specForbid("select")
		fr.set(x, p.selectOp(fr, x))
	case *ssa.Send:
		p.specForbid("send")
		ch := p.get(fr, x.Chan).(ChanVal)
		if ch.c == nil {
			panic(unsupported("send on nil chan"))
		}
		if len(ch.c.buf) >= ch.c.cap {
			panic(unsupported("blocking send"))
		}
		ch.c.buf = append(ch.c.buf, p.get(fr, x.X))
	default:
		panic(unsupported(fmt.Sprintf("instruction %T in %s", ins, fr.fn)))
	}
}

func (p *Path) concreteInt(v Value, what string) int {
	t, ok := v.(*Term)
	if !ok {
		panic(unsupported(what + ": not an int"))
	}
	if i, ok := t.constInt64(); ok {
		return int(i)
	}
	panic(unsupported(what + ": symbolic"))
}

func (p *Path) deref(v Value) *Cell {
	switch x := v.(type) {
	case Ptr:
		if x.c == nil {
			p.goPanicf("nil pointer dereference")
		}
		return x.c
	case Poison:
		panic(unsupported("deref of poison: " + x.why))
	}
	panic(fmt.Sprintf("deref of %T", v))
}

func (p *Path) prepCall(fr *Frame, cc *ssa.CallCommon) (Value, []Value) {
	args := make([]Value, len(cc.Args))
	for i, a := range cc.Args {
		args[i] = p.get(fr, a)
	}
	return p.get(fr, cc.Value), args
}

func (p *Path) callInstr(fr *Frame, cc *ssa.CallCommon) Value {
	fv, args := p.prepCall(fr, cc)
	if p.inInit > 0 && p.depth == p.initBase+1 {
		// tolerant mode for package initialisers: a failing call yields poison
		var ret Value
		failed := false
		func() {
			defer func() {
				if r := recover(); r != nil {
					switch r.(type) {
					case unsupportedErr, *goPanic:
						failed = true
					default:
						panic(r)
					}
				}
			}()
			ret = p.doCall(cc, fv, args)
		}()
		if failed {
			return Poison{"init call failed: " + cc.String()}
		}
		return ret
	}
	return p.doCall(cc, fv, args)
}

// ---- operators ----

func (p *Path) unop(fr *Frame, x *ssa.UnOp) Value {
	v := p.get(fr, x.X)
	switch x.Op {
	case token.MUL:
		return p.deref(v).load()
	case token.NOT:
		return mkNot(v.(*Term))
	case token.SUB:
		switch t := v.(type) {
		case *Term:
			r := mkNeg(t)
			return p.wrapCheck(r, x.Type(), "neg")
		case FloatVal:
			return FloatVal{-t.f}
		}
	case token.ARROW:
		p.specForbid("receive")
		ch := v.(ChanVal)
		if ch.c == nil {
			panic(unsupported("recv on nil chan"))
		}
		if len(ch.c.buf) == 0 {
			if ch.c.closed {
				z := zeroValue(under(x.X.Type()).(*types.Chan).Elem())
				if x.CommaOk {
					return TupleVal{z, tFalse}
				}
				return z
			}
			panic(unsupported("blocking receive"))
		}
		r := ch.c.buf[0]
		ch.c.buf = ch.c.buf[1:]
		if x.CommaOk {
			return TupleVal{r, tTrue}
		}
		return r
	case token.XOR:
		if t, ok := v.(*Term); ok {
			if c, ok := t.constInt(); ok {
				ii, _ := intInfoOf(x.Type())
				return mkBig(ii.wrap(new(big.Int).Not(c)))
			}
		}
	}
	panic(unsupported(fmt.Sprintf("unop %v on %T", x.Op, v)))
}

func (p *Path) wrapCheck(r *Term, t types.Type, what string) *Term {
	ii, ok := intInfoOf(t)
	if !ok {
		return r
	}
	if c, ok := r.constInt(); ok {
		if c.Cmp(ii.min()) < 0 || c.Cmp(ii.max()) > 0 {
			return mkBig(ii.wrap(c))
		}
		return r
	}
	p.addWrap(ii.inRange(r), what)
	return r
}

func (p *Path) addWrap(c *Term, what string) {
	if p.spec != nil {
		c = mkImplies(p.spec.guard, c)
	}
	p.wrapObl = append(p.wrapObl, wrapOb{c, what})
}

func (p *Path) binop(op token.Token, a, b Value, opndT, resT types.Type) Value {
	switch x := a.(type) {
	case *Term:
		y, ok := b.(*Term)
		if !ok {
			break
		}
		switch x.sort {
		case SBool:
			switch op {
			case token.EQL:
				return mkEq(x, y)
			case token.NEQ:
				return mkNot(mkEq(x, y))
			case token.AND, token.LAND:
				return mkAnd(x, y)
			case token.OR, token.LOR:
				return mkOr(x, y)
			}
		case SStr:
			switch op {
			case token.ADD:
				return mkConcat(x, y)
			case token.EQL:
				return mkEq(x, y)
			case token.NEQ:
				return mkNot(mkEq(x, y))
			case token.LSS, token.LEQ, token.GTR, token.GEQ:
				xs, ok1 := x.constStr()
				ys, ok2 := y.constStr()
				if ok1 && ok2 {
					switch op {
					case token.LSS:
						return mkBool(xs < ys)
					case token.LEQ:
						return mkBool(xs <= ys)
					case token.GTR:
						return mkBool(xs > ys)
					default:
						return mkBool(xs >= ys)
					}
				}
				switch op {
				case token.LSS:
					return mk("str.<", SBool, x, y)
				case token.LEQ:
					return mk("str.<=", SBool, x, y)
				case token.GTR:
					return mk("str.<", SBool, y, x)
				default:
					return mk("str.<=", SBool, y, x)
				}
			}
		case SInt:
			return p.intBinop(op, x, y, opndT, resT)
		}
	case FloatVal:
		y, ok := b.(FloatVal)
		if !ok {
			break
		}
		switch op {
		case token.ADD:
			return FloatVal{x.f + y.f}
		case token.SUB:
			return FloatVal{x.f - y.f}
		case token.MUL:
			return FloatVal{x.f * y.f}
		case token.QUO:
			return FloatVal{x.f / y.f}
		case token.LSS:
			return mkBool(x.f < y.f)
		case token.LEQ:
			return mkBool(x.f <= y.f)
		case token.GTR:
			return mkBool(x.f > y.f)
		case token.GEQ:
			return mkBool(x.f >= y.f)
		case token.EQL:
			return mkBool(x.f == y.f)
		case token.NEQ:
			return mkBool(x.f != y.f)
		}
	}
	switch op {
	case token.EQL:
		return p.valuesEqual(a, b)
	case token.NEQ:
		return mkNot(p.valuesEqual(a, b))
	}
	panic(unsupported(fmt.Sprintf("binop %v on %T, %T", op, a, b)))
}

func (p *Path) intBinop(op token.Token, x, y *Term, opndT, resT types.Type) Value {
	switch op {
	case token.ADD:
		return p.wrapCheck(mkAdd(x, y), resT, "add")
	case token.SUB:
		return p.wrapCheck(mkSub(x, y), resT, "sub")
	case token.MUL:
		if !x.isConst() && !y.isConst() {
			panic(unsupported("nonlinear multiplication"))
		}
		return p.wrapCheck(mkMul(x, y), resT, "mul")
	case token.QUO, token.REM:
		if !y.isConst() {
			if p.branch(mkEq(y, mkInt(0))) {
				p.goPanicf("integer divide by zero")
			}
			panic(unsupported("division by symbolic divisor"))
		}
		if y.iv.Sign() == 0 {
			p.goPanicf("integer divide by zero")
		}
		if op == token.QUO {
			return p.wrapCheck(mkQuo(x, y), resT, "quo")
		}
		return mkRem(x, y)
	case token.EQL:
		return mkEq(x, y)
	case token.NEQ:
		return mkNot(mkEq(x, y))
	case token.LSS:
		return mkLt(x, y)
	case token.LEQ:
		return mkLe(x, y)
	case token.GTR:
		return mkGt(x, y)
	case token.GEQ:
		return mkGe(x, y)
	case token.SHL:
		if s, ok := y.constInt64(); ok && s >= 0 && s < 64 {
			return p.wrapCheckShl(mkMul(x, mkBig(new(big.Int).Lsh(big.NewInt(1), uint(s)))), resT)
		}
	case token.SHR:
		if s, ok := y.constInt64(); ok && s >= 0 && s < 64 {
			return mkFloorDiv(x, mkBig(new(big.Int).Lsh(big.NewInt(1), uint(s))))
		}
	case token.AND, token.OR, token.XOR, token.AND_NOT:
		xc, ok1 := x.constInt()
		yc, ok2 := y.constInt()
		if ok1 && ok2 {
			ii, _ := intInfoOf(resT)
			var r *big.Int
			switch op {
			case token.AND:
				r = new(big.Int).And(xc, yc)
			case token.OR:
				r = new(big.Int).Or(xc, yc)
			case token.XOR:
				r = new(big.Int).Xor(xc, yc)
			default:
				r = new(big.Int).AndNot(xc, yc)
			}
			return mkBig(ii.wrap(r))
		}
	}
	panic(unsupported(fmt.Sprintf("int binop %v on symbolic operands", op)))
}

func (p *Path) wrapCheckShl(r *Term, t types.Type) *Term {
	if c, ok := r.constInt(); ok {
		ii, _ := intInfoOf(t)
		return mkBig(ii.wrap(c))
	}
	return p.wrapCheck(r, t, "shl")
}

func (p *Path) valuesEqual(a, b Value) *Term {
	switch x := a.(type) {
	case nil:
		switch y := b.(type) {
		case nil:
			return tTrue
		default:
			return p.valuesEqual(y, nil)
		}
	case *Term:
		if y, ok := b.(*Term); ok {
			return mkEq(x, y)
		}
	case Ptr:
		switch y := b.(type) {
		case Ptr:
			return mkBool(x.c == y.c)
		case nil:
			return mkBool(x.c == nil)
		}
	case IfaceVal:
		switch y := b.(type) {
		case nil:
			return mkBool(x.t == nil)
		case IfaceVal:
			if x.t == nil || y.t == nil {
				return mkBool(x.t == nil && y.t == nil)
			}
			if !types.Identical(x.t, y.t) {
				return tFalse
			}
			return p.valuesEqual(x.v, y.v)
		}
	case *ErrObj:
		if y, ok := b.(*ErrObj); ok {
			return mkBool(x == y)
		}
		return tFalse
	case StructVal:
		if y, ok := b.(StructVal); ok {
			st := under(x.t).(*types.Struct)
			var cs []*Term
			for i := 0; i < st.NumFields(); i++ {
				cs = append(cs, p.valuesEqual(x.field(i), y.field(i)))
			}
			return mkAnd(cs...)
		}
	case ArrayVal:
		if y, ok := b.(ArrayVal); ok {
			n := int(under(x.t).(*types.Array).Len())
			var cs []*Term
			for i := 0; i < n; i++ {
				cs = append(cs, p.valuesEqual(x.elem(i), y.elem(i)))
			}
			return mkAnd(cs...)
		}
	case TimeVal:
		if y, ok := b.(TimeVal); ok {
			return mkAnd(mkEq(x.sec, y.sec), mkEq(x.nsec, y.nsec), p.valuesEqual(x.loc, y.loc))
		}
	case SliceVal:
		switch y := b.(type) {
		case nil:
			return mkBool(x.b == nil)
		case SliceVal:
			if y.b == nil {
				return mkBool(x.b == nil)
			}
			if x.b == nil {
				return tFalse
			}
		}
	case MapVal:
		switch y := b.(type) {
		case nil:
			return mkBool(x.m == nil)
		case MapVal:
			if y.m == nil {
				return mkBool(x.m == nil)
			}
			if x.m == nil {
				return tFalse
			}
			return mkBool(x.m == y.m)
		}
	case ChanVal:
		switch y := b.(type) {
		case nil:
			return mkBool(x.c == nil)
		case ChanVal:
			return mkBool(x.c == y.c)
		}
	case FuncVal:
		isNil := x.fn == nil && x.clo == nil && x.builtin == nil && x.bound == nil
		switch y := b.(type) {
		case nil:
			return mkBool(isNil)
		case FuncVal:
			yNil := y.fn == nil && y.clo == nil && y.builtin == nil && y.bound == nil
			if isNil || yNil {
				return mkBool(isNil && yNil)
			}
		}
	case FloatVal:
		if y, ok := b.(FloatVal); ok {
			return mkBool(x.f == y.f)
		}
	case HostVal:
		if y, ok := b.(HostVal); ok {
			if rx, ok := x.v.(reflectTypeHost); ok {
				if ry, ok := y.v.(reflectTypeHost); ok {
					return mkBool(types.Identical(rx.t, ry.t))
				}
				return tFalse
			}
			return mkBool(x.v == y.v)
		}
	}
	panic(unsupported(fmt.Sprintf("equality of %T and %T", a, b)))
}

func (p *Path) changeType(v Value, to types.Type) Value {
	switch x := v.(type) {
	case StructVal:
		x.t = to
		return x
	case ArrayVal:
		x.t = to
		return x
	}
	return v
}

func (p *Path) convert(v Value, from, to types.Type) Value {
	fu, tu := under(from), under(to)
	switch x := v.(type) {
	case *Term:
		switch x.sort {
		case SInt:
			if tb, ok := tu.(*types.Basic); ok {
				switch {
				case tb.Info()&types.IsInteger != 0:
					ii, _ := intInfoOf(to)
					if c, ok := x.constInt(); ok {
						return mkBig(ii.wrap(c))
					}
					fi, _ := intInfoOf(from)
					if fi.bits <= ii.bits && fi.signed == ii.signed || (!fi.signed && ii.signed && fi.bits < ii.bits) {
						return x
					}
					p.addWrap(ii.inRange(x), "convert "+from.String()+"->"+to.String())
					return x
				case tb.Info()&types.IsFloat != 0:
					if c, ok := x.constInt(); ok {
						f, _ := new(big.Float).SetInt(c).Float64()
						return FloatVal{f}
					}
					panic(unsupported("symbolic int -> float"))
				case tb.Info()&types.IsString != 0:
					if c, ok := x.constInt64(); ok {
						return mkStr(string(rune(c)))
					}
					panic(unsupported("symbolic int -> string"))
				}
			}
		case SStr:
			if tb, ok := tu.(*types.Basic); ok && tb.Info()&types.IsString != 0 {
				return x
			}
			if ts, ok := tu.(*types.Slice); ok {
				s, ok := x.constStr()
				if !ok {
					panic(unsupported("symbolic string -> slice"))
				}
				eb := under(ts.Elem()).(*types.Basic)
				b := &Backing{elem: ts.Elem()}
				if eb.Kind() == types.Uint8 {
					for i := 0; i < len(s); i++ {
						c := newCell(ts.Elem())
						c.v = mkInt(int64(s[i]))
						b.cells = append(b.cells, c)
					}
				} else {
					for _, r := range s {
						c := newCell(ts.Elem())
						c.v = mkInt(int64(r))
						b.cells = append(b.cells, c)
					}
				}
				return SliceVal{b: b, len: len(b.cells), cap: len(b.cells)}
			}
		case SBool:
			return x
		}
	case FloatVal:
		if tb, ok := tu.(*types.Basic); ok {
			if tb.Info()&types.IsFloat != 0 {
				return x
			}
			if tb.Info()&types.IsInteger != 0 {
				return mkInt(int64(x.f))
			}
		}
	case SliceVal:
		if tb, ok := tu.(*types.Basic); ok && tb.Info()&types.IsString != 0 {
			// []byte / []rune -> string, concrete only
			fs := fu.(*types.Slice)
			isByte := under(fs.Elem()).(*types.Basic).Kind() == types.Uint8
			var sb strings.Builder
			for i := 0; i < x.len; i++ {
				c, ok := x.b.cells[x.off+i].v.(*Term).constInt64()
				if !ok {
					panic(unsupported("symbolic bytes -> string"))
				}
				if isByte {
					sb.WriteByte(byte(c))
				} else {
					sb.WriteRune(rune(c))
				}
			}
			return mkStr(sb.String())
		}
		return x
	case Ptr:
		return x // pointer conversions incl. unsafe.Pointer
	case Poison:
		return x
	}
	_ = fu
	return v
}

func (p *Path) typeAssert(v Value, asserted types.Type, commaOk bool) Value {
	iv, ok := v.(IfaceVal)
	if !ok {
		if pz, isP := v.(Poison); isP {
			panic(unsupported("type assert on poison: " + pz.why))
		}
		panic(fmt.Sprintf("typeassert on %T", v))
	}
	okRes := false
	var res Value
	if iv.t != nil {
		if it, isI := under(asserted).(*types.Interface); isI {
			if eo, isE := iv.v.(*ErrObj); isE {
				okRes = errObjImplements(eo, it)
			} else if _, isH := iv.v.(HostVal); isH {
				okRes = it.NumMethods() == 0
			} else {
				okRes = types.Implements(iv.t, it)
			}
			if okRes {
				res = iv
			}
		} else {
			if _, isE := iv.v.(*ErrObj); !isE && types.Identical(iv.t, asserted) {
				okRes = true
				res = iv.v
			}
		}
	}
	if commaOk {
		if !okRes {
			res = zeroValue(asserted)
		}
		return TupleVal{res, mkBool(okRes)}
	}
	if !okRes {
		p.goPanicf("interface conversion: %v is not %v", iv.t, asserted)
	}
	return res
}

// ---- indexing, slices ----

func (p *Path) pickIndex(idx Value, n int, what string) int {
	t := idx.(*Term)
	if i, ok := t.constInt64(); ok {
		if i < 0 || int(i) >= n {
			p.goPanicf("index out of range [%d] with length %d (%s)", i, n, what)
		}
		return int(i)
	}
	// symbolic index: case split over [0,n) plus out-of-range
	conds := make([]*Term, n+1)
	for i := 0; i < n; i++ {
		conds[i] = mkEq(t, mkInt(int64(i)))
	}
	conds[n] = mkOr(mkLt(t, mkInt(0)), mkGe(t, mkInt(int64(n))))
	k := p.decide(conds)
	if k == n {
		p.goPanicf("index out of range [symbolic] with length %d (%s)", n, what)
	}
	return k
}

func (p *Path) indexAddr(fr *Frame, x *ssa.IndexAddr) Value {
	base := p.get(fr, x.X)
	idx := p.get(fr, x.Index)
	switch b := base.(type) {
	case SliceVal:
		i := p.pickIndex(idx, b.len, fr.fn.String())
		return Ptr{b.b.cells[b.off+i]}
	case Ptr:
		c := p.deref(b)
		c.ensureKids()
		i := p.pickIndex(idx, len(c.kids), fr.fn.String())
		return Ptr{c.kids[i]}
	}
	panic(unsupported(fmt.Sprintf("IndexAddr on %T", base)))
}

func (p *Path) index(fr *Frame, x *ssa.Index) Value {
	base := p.get(fr, x.X)
	idx := p.get(fr, x.Index)
	switch b := base.(type) {
	case ArrayVal:
		n := int(under(b.t).(*types.Array).Len())
		return b.elem(p.pickIndex(idx, n, fr.fn.String()))
	case *Term:
		s, ok := b.constStr()
		if !ok {
			panic(unsupported("index into symbolic string"))
		}
		return mkInt(int64(s[p.pickIndex(idx, len(s), fr.fn.String())]))
	}
	panic(unsupported(fmt.Sprintf("Index on %T", base)))
}

func (p *Path) optInt(fr *Frame, v ssa.Value, def int) int {
	if v == nil {
		return def
	}
	return p.concreteIntOrSplit(p.get(fr, v), def)
}

// concreteIntOrSplit: symbolic slice bounds are case-split over [0,max].
func (p *Path) concreteIntOrSplit(v Value, max int) int {
	t := v.(*Term)
	if i, ok := t.constInt64(); ok {
		return int(i)
	}
	if max > 64 {
		panic(unsupported("symbolic slice bound too wide"))
	}
	conds := make([]*Term, max+2)
	for i := 0; i <= max; i++ {
		conds[i] = mkEq(t, mkInt(int64(i)))
	}
	conds[max+1] = mkOr(mkLt(t, mkInt(0)), mkGt(t, mkInt(int64(max))))
	k := p.decide(conds)
	if k == max+1 {
		p.goPanicf("slice bounds out of range [symbolic]")
	}
	return k
}

func (p *Path) sliceOp(fr *Frame, x *ssa.Slice) Value {
	base := p.get(fr, x.X)
	switch b := base.(type) {
	case SliceVal:
		lo := p.optInt(fr, x.Low, 0)
		hi := b.len
		if x.High != nil {
			hi = p.concreteIntOrSplit(p.get(fr, x.High), b.cap)
		}
		mx := b.cap
		if x.Max != nil {
			mx = p.concreteIntOrSplit(p.get(fr, x.Max), b.cap)
		}
		if lo < 0 || hi < lo || mx < hi || mx > b.cap {
			p.goPanicf("slice bounds out of range [%d:%d:%d] cap %d", lo, hi, mx, b.cap)
		}
		if b.b == nil {
			return SliceVal{}
		}
		return SliceVal{b: b.b, off: b.off + lo, len: hi - lo, cap: mx - lo}
	case *Term:
		s, ok := b.constStr()
		if !ok {
			// symbolic string slicing via substr
			lo := mkInt(0)
			if x.Low != nil {
				lo = p.get(fr, x.Low).(*Term)
			}
			var hi *Term = mkStrLen(b)
			if x.High != nil {
				hi = p.get(fr, x.High).(*Term)
			}
			if p.branch(mkOr(mkLt(lo, mkInt(0)), mkLt(hi, lo), mkGt(hi, mkStrLen(b)))) {
				p.goPanicf("string slice bounds out of range")
			}
			return mk("str.substr", SStr, b, lo, mkSub(hi, lo))
		}
		lo := p.optInt(fr, x.Low, 0)
		hi := len(s)
		if x.High != nil {
			hi = p.concreteIntOrSplit(p.get(fr, x.High), len(s))
		}
		if lo < 0 || hi < lo || hi > len(s) {
			p.goPanicf("string slice bounds out of range [%d:%d] len %d", lo, hi, len(s))
		}
		return mkStr(s[lo:hi])
	case Ptr: // *array
		c := p.deref(b)
		c.ensureKids()
		n := len(c.kids)
		lo := p.optInt(fr, x.Low, 0)
		hi := p.optInt(fr, x.High, n)
		mx := p.optInt(fr, x.Max, n)
		if lo < 0 || hi < lo || mx < hi || mx > n {
			p.goPanicf("slice bounds out of range")
		}
		bk := &Backing{cells: c.kids, elem: under(c.t).(*types.Array).Elem()}
		return SliceVal{b: bk, off: lo, len: hi - lo, cap: mx - lo}
	}
	panic(unsupported(fmt.Sprintf("Slice on %T", base)))
}

// ---- maps ----

func (p *Path) lookup(fr *Frame, x *ssa.Lookup) Value {
	base := p.get(fr, x.X)
	switch b := base.(type) {
	case MapVal:
		mt := under(x.X.Type()).(*types.Map)
		k := p.get(fr, x.Index)
		var val Value
		found := false
		if b.m != nil {
			kk, ok := keyString(k)
			if !ok {
				// symbolic key: case split over existing keys
				ents := b.m.liveEntries()
				kt, isT := k.(*Term)
				if !isT {
					panic(unsupported("map lookup with symbolic composite key in " + fr.fn.String()))
				}
				conds := make([]*Term, len(ents)+1)
				var none []*Term
				for i, e := range ents {
					conds[i] = mkEq(kt, e.key.(*Term))
					none = append(none, mkNot(conds[i]))
				}
				conds[len(ents)] = mkAnd(none...)
				i := p.decide(conds)
				if i < len(ents) {
					val, found = ents[i].val, true
				}
			} else if e, ok := b.m.get(kk); ok {
				val, found = e.val, true
			}
		}
		if !found {
			val = zeroValue(mt.Elem())
		}
		if x.CommaOk {
			return TupleVal{val, mkBool(found)}
		}
		return val
	case *Term:
		s, ok := b.constStr()
		if !ok {
			panic(unsupported("index into symbolic string"))
		}
		return mkInt(int64(s[p.pickIndex(p.get(fr, x.Index), len(s), fr.fn.String())]))
	}
	panic(unsupported(fmt.Sprintf("Lookup on %T", base)))
}

func (p *Path) mapOrder(m *MapObj) []*mapEntry {
	ents := m.liveEntries()
	if k := p.nondetMaps[m]; k > 0 {
		// a rotation drawn by the harness for this map
		k = (k - 1) % len(max1(ents))
		if len(ents) < 2 {
			return ents
		}
		out := append([]*mapEntry{}, ents[k:]...)
		return append(out, ents[:k]...)
	}
	if !p.mapOrderNondet || len(ents) < 2 {
		return ents
	}
	if len(m.slots) > 8 {
		return ents // outside the small-map model: slot order only (stated reduced bound)
	}
	// go1.23 small map: iteration starts at a random slot offset and wraps; the
	// distinct visiting orders are the rotations starting at each live entry.
	k := p.choose(len(ents))
	out := append([]*mapEntry{}, ents[k:]...)
	return append(out, ents[:k]...)
}

func (p *Path) rangeStart(v Value) Value {
	switch x := v.(type) {
	case MapVal:
		if x.m == nil {
			return &RangeIter{}
		}
		return &RangeIter{m: x.m, order: p.mapOrder(x.m)}
	case *Term:
		s, ok := x.constStr()
		if !ok {
			panic(unsupported("range over symbolic string"))
		}
		return &RangeIter{isStr: true, str: s}
	}
	panic(unsupported(fmt.Sprintf("range over %T", v)))
}

func (p *Path) rangeNext(it *RangeIter, x *ssa.Next) Value {
	if it.isStr {
		if it.pos >= len(it.str) {
			return TupleVal{tFalse, mkInt(0), mkInt(0)}
		}
		for i, r := range it.str[it.pos:] {
			_ = i
			pos := it.pos
			it.pos += len(string(r))
			return TupleVal{tTrue, mkInt(int64(pos)), mkInt(int64(r))}
		}
	}
	for it.pos < len(it.order) {
		e := it.order[it.pos]
		it.pos++
		if !e.live {
			continue // deleted during iteration
		}
		return TupleVal{tTrue, e.key, e.val}
	}
	var kz, vz Value
	if it.m != nil {
		kz, vz = zeroValue(it.m.keyT), zeroValue(it.m.elemT)
	}
	return TupleVal{tFalse, kz, vz}
}

func (p *Path) selectOp(fr *Frame, x *ssa.Select) Value {
	// result tuple: (index int, recvOk bool, r_0 T_0, ... r_n-1 T_n-1) for recv states
	nrecv := 0
	for _, st := range x.States {
		if st.Dir == types.RecvOnly {
			nrecv++
		}
	}
	res := make(TupleVal, 2+nrecv)
	ri := 0
	for _, st := range x.States {
		if st.Dir == types.RecvOnly {
			res[2+ri] = zeroValue(under(st.Chan.Type()).(*types.Chan).Elem())
			ri++
		}
	}
	ri = 0
	for i, st := range x.States {
		ch, _ := p.get(fr, st.Chan).(ChanVal)
		if st.Dir == types.RecvOnly {
			if ch.c != nil && len(ch.c.buf) > 0 {
				res[0] = mkInt(int64(i))
				res[1] = tTrue
				res[2+ri] = ch.c.buf[0]
				ch.c.buf = ch.c.buf[1:]
				return res
			}
			if ch.c != nil && ch.c.closed {
				res[0] = mkInt(int64(i))
				res[1] = tFalse
				return res
			}
			ri++
		} else {
			if ch.c != nil && len(ch.c.buf) < ch.c.cap {
				ch.c.buf = append(ch.c.buf, p.get(fr, st.Send))
				res[0] = mkInt(int64(i))
				res[1] = tFalse
				return res
			}
		}
	}
	if !x.Blocking {
		res[0] = mkInt(-1)
		res[1] = tFalse
		return res
	}
	panic(unsupported("blocking select"))
}

// ---- builtins ----

func (p *Path) builtin(b *ssa.Builtin, args []Value, cc *ssa.CallCommon) Value {
	switch b.Name() {
	case "len":
		switch x := args[0].(type) {
		case SliceVal:
			return mkInt(int64(x.len))
		case MapVal:
			if x.m == nil {
				return mkInt(0)
			}
			return mkInt(int64(x.m.length()))
		case *Term:
			return mkStrLen(x)
		case ChanVal:
			if x.c == nil {
				return mkInt(0)
			}
			return mkInt(int64(len(x.c.buf)))
		case ArrayVal:
			return mkInt(under(x.t).(*types.Array).Len())
		case Ptr:
			return mkInt(under(x.c.t).(*types.Array).Len())
		}
	case "cap":
		switch x := args[0].(type) {
		case SliceVal:
			return mkInt(int64(x.cap))
		case ChanVal:
			return mkInt(int64(x.c.cap))
		}
	case "append":
		p.specForbid("append")
		s := args[0].(SliceVal)
		var add []Value
		var elemT types.Type
		if st, ok := under(cc.Args[0].Type()).(*types.Slice); ok {
			elemT = st.Elem()
		}
		switch y := args[1].(type) {
		case SliceVal:
			for i := 0; i < y.len; i++ {
				add = append(add, y.b.cells[y.off+i].load())
			}
		case *Term: // append([]byte, string...)
			str, ok := y.constStr()
			if !ok {
				panic(unsupported("append symbolic string"))
			}
			for i := 0; i < len(str); i++ {
				add = append(add, mkInt(int64(str[i])))
			}
		case nil:
		}
		if len(add) == 0 {
			return s
		}
		if s.b != nil && s.len+len(add) <= s.cap {
			for i, v := range add {
				s.b.cells[s.off+s.len+i].store(v)
			}
			s.len += len(add)
			return s
		}
		ncap := s.cap * 2
		if ncap < s.len+len(add) {
			ncap = s.len + len(add)
		}
		nb := &Backing{elem: elemT, cells: make([]*Cell, ncap)}
		for i := range nb.cells {
			nb.cells[i] = newCell(elemT)
		}
		for i := 0; i < s.len; i++ {
			nb.cells[i].store(s.b.cells[s.off+i].load())
		}
		for i, v := range add {
			nb.cells[s.len+i].store(v)
		}
		return SliceVal{b: nb, len: s.len + len(add), cap: ncap}
	case "copy":
		p.specForbid("copy")
		dst := args[0].(SliceVal)
		n := dst.len
		switch src := args[1].(type) {
		case SliceVal:
			if src.len < n {
				n = src.len
			}
			vals := make([]Value, n)
			for i := 0; i < n; i++ {
				vals[i] = src.b.cells[src.off+i].load()
			}
			for i := 0; i < n; i++ {
				dst.b.cells[dst.off+i].store(vals[i])
			}
		case *Term:
			str, ok := src.constStr()
			if !ok {
				panic(unsupported("copy from symbolic string"))
			}
			if len(str) < n {
				n = len(str)
			}
			for i := 0; i < n; i++ {
				dst.b.cells[dst.off+i].store(mkInt(int64(str[i])))
			}
		}
		return mkInt(int64(n))
	case "delete":
		p.specForbid("delete")
		m := args[0].(MapVal)
		if m.m == nil {
			return nil
		}
		kk, ok := keyString(args[1])
		if !ok {
			panic(unsupported("delete with symbolic key"))
		}
		m.m.del(kk)
		return nil
	case "panic":
		panic(&goPanic{val: args[0], desc: "panic builtin: " + p.panicText(args[0])})
	case "recover":
		p.specForbid("recover")
		if n := len(p.panicFrames); n > 0 {
			fr := p.panicFrames[n-1]
			if fr.panicking != nil {
				v := fr.panicking.val
				fr.panicking = nil
				if _, ok := v.(IfaceVal); !ok {
					v = IfaceVal{t: types.Typ[types.String], v: mkStr("panic")}
				}
				return v
			}
		}
		return IfaceVal{}
	case "print", "println":
		return nil
	case "close":
		p.specForbid("close")
		ch := args[0].(ChanVal)
		ch.c.closed = true
		return nil
	case "min", "max":
		r := args[0].(*Term)
		for _, a := range args[1:] {
			t := a.(*Term)
			if b.Name() == "min" {
				r = mkIte(mkLt(t, r), t, r)
			} else {
				r = mkIte(mkGt(t, r), t, r)
			}
		}
		return r
	case "ssa:deferstack":
		return nil
	case "ssa:wrapnilchk":
		if pt, ok := args[0].(Ptr); ok && pt.c == nil {
			p.goPanicf("value method called using nil pointer")
		}
		return args[0]
	}
	panic(unsupported("builtin " + b.Name()))
}

func max1(e []*mapEntry) []*mapEntry {
	if len(e) == 0 {
		return make([]*mapEntry, 1)
	}
	return e
}
