package main

// Term DAG with constant folding and an SMT-LIB2 printer.
// Sorts: Bool, Int (mathematical integers; machine-width semantics are kept by
// no-wrap obligations collected by the executor), Str (SMT-LIB strings).

import (
	"fmt"
	"math/big"
	"strings"
)

type Sort int

const (
	SBool Sort = iota
	SInt
	SStr
)

func (s Sort) String() string {
	switch s {
	case SBool:
		return "Bool"
	case SInt:
		return "Int"
	}
	return "String"
}

type Term struct {
	op   string // "const", "var", or an SMT operator
	sort Sort
	args []*Term
	iv   *big.Int // const Int
	bv   bool     // const Bool
	sv   string   // const Str / var name
	size int
}

func (t *Term) isConst() bool { return t.op == "const" }

var (
	tTrue  = &Term{op: "const", sort: SBool, bv: true, size: 1}
	tFalse = &Term{op: "const", sort: SBool, bv: false, size: 1}
)

func mkBool(b bool) *Term {
	if b {
		return tTrue
	}
	return tFalse
}
var smallInts = func() []*Term {
	out := make([]*Term, 1056)
	for i := range out {
		out[i] = &Term{op: "const", sort: SInt, iv: big.NewInt(int64(i) - 32), size: 1}
	}
	return out
}()

func mkInt(i int64) *Term {
	if i >= -32 && i < 1024 {
		return smallInts[i+32]
	}
	return &Term{op: "const", sort: SInt, iv: big.NewInt(i), size: 1}
}
func mkBig(i *big.Int) *Term   { return &Term{op: "const", sort: SInt, iv: new(big.Int).Set(i), size: 1} }
func mkStr(s string) *Term     { return &Term{op: "const", sort: SStr, sv: s, size: 1} }
func mkVar(n string, s Sort) *Term { return &Term{op: "var", sort: s, sv: n, size: 1} }

func mk(op string, sort Sort, args ...*Term) *Term {
	sz := 1
	for _, a := range args {
		sz += a.size
		if sz > 1<<20 {
			sz = 1 << 20
		}
	}
	return &Term{op: op, sort: sort, args: args, size: sz}
}

func (t *Term) constInt() (*big.Int, bool) {
	if t.op == "const" && t.sort == SInt {
		return t.iv, true
	}
	return nil, false
}
func (t *Term) constInt64() (int64, bool) {
	if t.op == "const" && t.sort == SInt && t.iv.IsInt64() {
		return t.iv.Int64(), true
	}
	return 0, false
}
func (t *Term) constBool() (bool, bool) {
	if t.op == "const" && t.sort == SBool {
		return t.bv, true
	}
	return false, false
}
func (t *Term) constStr() (string, bool) {
	if t.op == "const" && t.sort == SStr {
		return t.sv, true
	}
	return "", false
}

func sameTerm(a, b *Term) bool {
	if a == b {
		return true
	}
	if a.op != b.op || a.sort != b.sort || len(a.args) != len(b.args) {
		return false
	}
	switch a.op {
	case "const":
		switch a.sort {
		case SBool:
			return a.bv == b.bv
		case SInt:
			return a.iv.Cmp(b.iv) == 0
		default:
			return a.sv == b.sv
		}
	case "var":
		return a.sv == b.sv
	}
	if a.size > 64 {
		return false
	}
	for i := range a.args {
		if !sameTerm(a.args[i], b.args[i]) {
			return false
		}
	}
	return true
}

func mkAdd(a, b *Term) *Term {
	x, ok1 := a.constInt()
	y, ok2 := b.constInt()
	if ok1 && ok2 {
		return mkBig(new(big.Int).Add(x, y))
	}
	if ok1 && x.Sign() == 0 {
		return b
	}
	if ok2 && y.Sign() == 0 {
		return a
	}
	// (a + c1) + c2 => a + (c1+c2)
	if ok2 && a.op == "+" && len(a.args) == 2 {
		if c1, ok := a.args[1].constInt(); ok {
			return mkAdd(a.args[0], mkBig(new(big.Int).Add(c1, y)))
		}
	}
	return mk("+", SInt, a, b)
}
func mkNeg(a *Term) *Term {
	if x, ok := a.constInt(); ok {
		return mkBig(new(big.Int).Neg(x))
	}
	if a.op == "-" && len(a.args) == 1 {
		return a.args[0]
	}
	return mk("-", SInt, a)
}
func mkSub(a, b *Term) *Term {
	x, ok1 := a.constInt()
	y, ok2 := b.constInt()
	if ok1 && ok2 {
		return mkBig(new(big.Int).Sub(x, y))
	}
	if ok2 {
		return mkAdd(a, mkBig(new(big.Int).Neg(y)))
	}
	if ok1 && x.Sign() == 0 {
		return mkNeg(b)
	}
	if sameTerm(a, b) {
		return mkInt(0)
	}
	return mk("-", SInt, a, b)
}
func mkMul(a, b *Term) *Term {
	x, ok1 := a.constInt()
	y, ok2 := b.constInt()
	if ok1 && ok2 {
		return mkBig(new(big.Int).Mul(x, y))
	}
	if ok1 {
		a, b, x, y, ok1, ok2 = b, a, y, x, ok2, ok1
	}
	if ok2 {
		if y.Sign() == 0 {
			return mkInt(0)
		}
		if y.Cmp(big.NewInt(1)) == 0 {
			return a
		}
	}
	return mk("*", SInt, a, b) // nonlinear if neither is constant; executor rejects
}

// Go's truncated division / remainder.
func mkQuo(a, b *Term) *Term {
	x, ok1 := a.constInt()
	y, ok2 := b.constInt()
	if ok1 && ok2 && y.Sign() != 0 {
		return mkBig(new(big.Int).Quo(x, y))
	}
	if ok2 && y.Cmp(big.NewInt(1)) == 0 {
		return a
	}
	// truncated: sign(a)*sign(b) * (|a| div |b|)
	absa := mkIte(mkLt(a, mkInt(0)), mkNeg(a), a)
	absb := mkIte(mkLt(b, mkInt(0)), mkNeg(b), b)
	q := mk("div", SInt, absa, absb)
	neg := mkXor(mkLt(a, mkInt(0)), mkLt(b, mkInt(0)))
	return mkIte(neg, mkNeg(q), q)
}
func mkRem(a, b *Term) *Term {
	x, ok1 := a.constInt()
	y, ok2 := b.constInt()
	if ok1 && ok2 && y.Sign() != 0 {
		return mkBig(new(big.Int).Rem(x, y))
	}
	absa := mkIte(mkLt(a, mkInt(0)), mkNeg(a), a)
	absb := mkIte(mkLt(b, mkInt(0)), mkNeg(b), b)
	r := mk("mod", SInt, absa, absb)
	return mkIte(mkLt(a, mkInt(0)), mkNeg(r), r)
}

// floor division by positive constant (used by time normalisation)
func mkFloorDiv(a, b *Term) *Term {
	x, ok1 := a.constInt()
	y, ok2 := b.constInt()
	if ok1 && ok2 && y.Sign() > 0 {
		q, m := new(big.Int).DivMod(x, y, new(big.Int))
		_ = m
		return mkBig(q)
	}
	return mk("div", SInt, a, b)
}
func mkFloorMod(a, b *Term) *Term {
	x, ok1 := a.constInt()
	y, ok2 := b.constInt()
	if ok1 && ok2 && y.Sign() > 0 {
		return mkBig(new(big.Int).Mod(x, y))
	}
	return mk("mod", SInt, a, b)
}

func mkLt(a, b *Term) *Term {
	x, ok1 := a.constInt()
	y, ok2 := b.constInt()
	if ok1 && ok2 {
		return mkBool(x.Cmp(y) < 0)
	}
	if sameTerm(a, b) {
		return tFalse
	}
	return mk("<", SBool, a, b)
}
func mkLe(a, b *Term) *Term {
	x, ok1 := a.constInt()
	y, ok2 := b.constInt()
	if ok1 && ok2 {
		return mkBool(x.Cmp(y) <= 0)
	}
	if sameTerm(a, b) {
		return tTrue
	}
	return mk("<=", SBool, a, b)
}
func mkGt(a, b *Term) *Term { return mkLt(b, a) }
func mkGe(a, b *Term) *Term { return mkLe(b, a) }

func mkEq(a, b *Term) *Term {
	if a.sort != b.sort {
		panic(fmt.Sprintf("mkEq sort mismatch %v %v", a.sort, b.sort))
	}
	if a.isConst() && b.isConst() {
		return mkBool(sameTerm(a, b))
	}
	if sameTerm(a, b) {
		return tTrue
	}
	if a.sort == SBool {
		if v, ok := a.constBool(); ok {
			if v {
				return b
			}
			return mkNot(b)
		}
		if v, ok := b.constBool(); ok {
			if v {
				return a
			}
			return mkNot(a)
		}
	}
	if a.sort == SStr {
		if r, ok := strEqStructural(a, b); ok {
			return r
		}
	}
	return mk("=", SBool, a, b)
}
func mkNot(a *Term) *Term {
	if v, ok := a.constBool(); ok {
		return mkBool(!v)
	}
	if a.op == "not" {
		return a.args[0]
	}
	return mk("not", SBool, a)
}
func mkAnd(ts ...*Term) *Term {
	var out []*Term
	for _, t := range ts {
		if v, ok := t.constBool(); ok {
			if !v {
				return tFalse
			}
			continue
		}
		out = append(out, t)
	}
	switch len(out) {
	case 0:
		return tTrue
	case 1:
		return out[0]
	}
	return mk("and", SBool, out...)
}
func mkOr(ts ...*Term) *Term {
	var out []*Term
	for _, t := range ts {
		if v, ok := t.constBool(); ok {
			if v {
				return tTrue
			}
			continue
		}
		out = append(out, t)
	}
	switch len(out) {
	case 0:
		return tFalse
	case 1:
		return out[0]
	}
	return mk("or", SBool, out...)
}
func mkXor(a, b *Term) *Term { return mkNot(mkEq(a, b)) }
func mkImplies(a, b *Term) *Term { return mkOr(mkNot(a), b) }
func mkIte(c, a, b *Term) *Term {
	if v, ok := c.constBool(); ok {
		if v {
			return a
		}
		return b
	}
	if sameTerm(a, b) {
		return a
	}
	if a.sort == SBool {
		av, aok := a.constBool()
		bv, bok := b.constBool()
		if aok && bok {
			if av && !bv {
				return c
			}
			if !av && bv {
				return mkNot(c)
			}
		}
	}
	return mk("ite", a.sort, c, a, b)
}

// ---- strings ----

func mkConcat(a, b *Term) *Term {
	x, ok1 := a.constStr()
	y, ok2 := b.constStr()
	if ok1 && ok2 {
		return mkStr(x + y)
	}
	if ok1 && x == "" {
		return b
	}
	if ok2 && y == "" {
		return a
	}
	// flatten: keep as n-ary list with adjacent constants merged
	var parts []*Term
	add := func(t *Term) {
		if t.op == "str.++" {
			parts = append(parts, t.args...)
		} else {
			parts = append(parts, t)
		}
	}
	add(a)
	add(b)
	var merged []*Term
	for _, p := range parts {
		if n := len(merged); n > 0 {
			if s1, ok := merged[n-1].constStr(); ok {
				if s2, ok := p.constStr(); ok {
					merged[n-1] = mkStr(s1 + s2)
					continue
				}
			}
		}
		merged = append(merged, p)
	}
	if len(merged) == 1 {
		return merged[0]
	}
	return mk("str.++", SStr, merged...)
}

// Itoa of a symbolic int (Go strconv.Itoa / %d semantics, incl. sign).
func mkItoa(a *Term) *Term {
	if x, ok := a.constInt(); ok {
		return mkStr(x.String())
	}
	return mk("itoa", SStr, a) // printed as ite(a<0, "-"++from_int(-a), from_int(a))
}

func mkStrLen(a *Term) *Term {
	if s, ok := a.constStr(); ok {
		return mkInt(int64(len(s)))
	}
	return mk("str.len", SInt, a)
}

// strParts returns the concatenation parts of a string term.
func strParts(t *Term) []*Term {
	if t.op == "str.++" {
		return t.args
	}
	return []*Term{t}
}

// strEqStructural decides equality of segment strings when the skeletons make it
// decidable: const-prefix mismatch, or identical skeleton with itoa parts
// (itoa is injective and its image contains only [-0-9]).
func strEqStructural(a, b *Term) (*Term, bool) {
	pa, pb := strParts(a), strParts(b)
	// Strip common constant prefix; detect mismatch.
	if len(pa) > 0 && len(pb) > 0 {
		sa, oka := pa[0].constStr()
		sb, okb := pb[0].constStr()
		if oka && okb {
			n := len(sa)
			if len(sb) < n {
				n = len(sb)
			}
			if sa[:n] != sb[:n] {
				return tFalse, true
			}
		}
	}
	if len(pa) == len(pb) {
		conj := []*Term{}
		for i := range pa {
			x, y := pa[i], pb[i]
			if x.isConst() && y.isConst() {
				if x.sv != y.sv {
					// same skeleton position but differing constants: only decidable when neighbours are itoa
					return nil, false
				}
				continue
			}
			if x.op == "itoa" && y.op == "itoa" {
				conj = append(conj, mkEq(x.args[0], y.args[0]))
				continue
			}
			if sameTerm(x, y) {
				continue
			}
			return nil, false
		}
		// skeleton equal with only itoa holes: equality iff all holes equal provided constants
		// separating the holes are non-digit-leading/trailing; conservatively require each
		// constant separator to be non-empty and to start and end with a char outside [-0-9]
		// unless at the ends.
		for i := range pa {
			if pa[i].op == "itoa" {
				if i+1 < len(pa) {
					s, ok := pa[i+1].constStr()
					if !ok || s == "" || isNumCh(s[0]) {
						return nil, false
					}
				}
			}
		}
		return mkAnd(conj...), true
	}
	return nil, false
}

func isNumCh(c byte) bool { return c == '-' || (c >= '0' && c <= '9') }

// ---- printing ----

func smtStrLit(s string) string {
	var sb strings.Builder
	sb.WriteByte('"')
	for i := 0; i < len(s); i++ {
		c := s[i]
		switch {
		case c == '"':
			sb.WriteString(`""`)
		case c == '\\':
			sb.WriteString(`\u{5c}`)
		case c >= 0x20 && c < 0x7f:
			sb.WriteByte(c)
		default:
			fmt.Fprintf(&sb, `\u{%x}`, c)
		}
	}
	sb.WriteByte('"')
	return sb.String()
}

func smtInt(i *big.Int) string {
	if i.Sign() < 0 {
		return "(- " + new(big.Int).Neg(i).String() + ")"
	}
	return i.String()
}

// plain printer (no sharing); used for debugging and samples
func (t *Term) String() string {
	switch t.op {
	case "const":
		switch t.sort {
		case SBool:
			if t.bv {
				return "true"
			}
			return "false"
		case SInt:
			return smtInt(t.iv)
		default:
			return smtStrLit(t.sv)
		}
	case "var":
		return t.sv
	case "itoa":
		a := t.args[0].String()
		return "(ite (< " + a + " 0) (str.++ \"-\" (str.from_int (- " + a + "))) (str.from_int " + a + "))"
	}
	var sb strings.Builder
	sb.WriteByte('(')
	sb.WriteString(t.op)
	for _, a := range t.args {
		sb.WriteByte(' ')
		sb.WriteString(a.String())
	}
	sb.WriteByte(')')
	return sb.String()
}

// collectVars appends the variables of t to out (dedup by name through seen).
func collectVars(t *Term, seen map[*Term]bool, vars map[string]*Term) {
	if seen[t] {
		return
	}
	seen[t] = true
	if t.op == "var" {
		vars[t.sv] = t
		return
	}
	for _, a := range t.args {
		collectVars(a, seen, vars)
	}
}

// evalTerm evaluates t under a model (var name -> const term). Missing vars
// default to 0/false/"".
func evalTerm(t *Term, model map[string]*Term, memo map[*Term]*Term) *Term {
	if r, ok := memo[t]; ok {
		return r
	}
	var r *Term
	switch t.op {
	case "const":
		r = t
	case "var":
		if v, ok := model[t.sv]; ok {
			r = v
		} else {
			switch t.sort {
			case SBool:
				r = tFalse
			case SInt:
				r = mkInt(0)
			default:
				r = mkStr("")
			}
		}
	default:
		args := make([]*Term, len(t.args))
		for i, a := range t.args {
			args[i] = evalTerm(a, model, memo)
		}
		r = rebuild(t.op, t.sort, args)
	}
	memo[t] = r
	return r
}

func rebuild(op string, sort Sort, a []*Term) *Term {
	switch op {
	case "+":
		r := a[0]
		for _, x := range a[1:] {
			r = mkAdd(r, x)
		}
		return r
	case "-":
		if len(a) == 1 {
			return mkNeg(a[0])
		}
		return mkSub(a[0], a[1])
	case "*":
		return mkMul(a[0], a[1])
	case "div":
		if y, ok := a[1].constInt(); ok && y.Sign() > 0 {
			return mkFloorDiv(a[0], a[1])
		}
		if x, ok := a[0].constInt(); ok {
			if y, ok := a[1].constInt(); ok && y.Sign() < 0 {
				// SMT-LIB div: a = b*q + r, 0<=r<|b|
				q, _ := new(big.Int).DivMod(x, y, new(big.Int))
				return mkBig(q)
			}
		}
		return mk("div", SInt, a...)
	case "mod":
		if x, ok := a[0].constInt(); ok {
			if y, ok := a[1].constInt(); ok && y.Sign() != 0 {
				return mkBig(new(big.Int).Mod(x, y))
			}
		}
		return mk("mod", SInt, a...)
	case "<":
		return mkLt(a[0], a[1])
	case "<=":
		return mkLe(a[0], a[1])
	case "=":
		return mkEq(a[0], a[1])
	case "not":
		return mkNot(a[0])
	case "and":
		return mkAnd(a...)
	case "or":
		return mkOr(a...)
	case "ite":
		return mkIte(a[0], a[1], a[2])
	case "str.++":
		r := a[0]
		for _, x := range a[1:] {
			r = mkConcat(r, x)
		}
		return r
	case "itoa":
		return mkItoa(a[0])
	case "str.len":
		return mkStrLen(a[0])
	case "str.to_int":
		if s, ok := a[0].constStr(); ok {
			if s == "" {
				return mkInt(-1)
			}
			for i := 0; i < len(s); i++ {
				if s[i] < '0' || s[i] > '9' {
					return mkInt(-1)
				}
			}
			n, _ := new(big.Int).SetString(s, 10)
			return mkBig(n)
		}
	case "str.prefixof":
		if x, ok := a[0].constStr(); ok {
			if y, ok := a[1].constStr(); ok {
				return mkBool(strings.HasPrefix(y, x))
			}
		}
	case "str.suffixof":
		if x, ok := a[0].constStr(); ok {
			if y, ok := a[1].constStr(); ok {
				return mkBool(strings.HasSuffix(y, x))
			}
		}
	case "str.contains":
		if x, ok := a[0].constStr(); ok {
			if y, ok := a[1].constStr(); ok {
				return mkBool(strings.Contains(x, y))
			}
		}
	case "str.substr":
		if s, ok := a[0].constStr(); ok {
			if i, ok := a[1].constInt64(); ok {
				if n, ok := a[2].constInt64(); ok {
					if i < 0 || i >= int64(len(s)) || n <= 0 {
						return mkStr("")
					}
					e := i + n
					if e > int64(len(s)) {
						e = int64(len(s))
					}
					return mkStr(s[i:e])
				}
			}
		}
	}
	return mk(op, sort, a...)
}
