package main

// One live solver process per worker (z3 -in), incremental push/pop.

import (
	"bufio"
	"fmt"
	"io"
	"math/big"
	"os"
	"os/exec"
	"strings"
	"time"
)

type Solver struct {
	cmd     *exec.Cmd
	in      io.WriteCloser
	out     *bufio.Reader
	bin     string
	defined []map[*Term]string // per scope: shared term -> name
	declared []map[string]bool
	nameCtr int
	queries int
	solveNs int64
	errors  int
	unknowns int
	log     *os.File
	timeoutMs int
	tag string
	byTag map[string]int
}

func solverBin() string {
	if b := os.Getenv("GOSYM_SOLVER"); b != "" {
		return b
	}
	return "/usr/bin/z3"
}

func NewSolver(timeoutMs int) (*Solver, error) {
	s := &Solver{bin: solverBin(), timeoutMs: timeoutMs}
	if err := s.start(); err != nil {
		return nil, err
	}
	return s, nil
}

func (s *Solver) start() error {
	s.cmd = exec.Command(s.bin, "-in", "-smt2")
	in, err := s.cmd.StdinPipe()
	if err != nil {
		return err
	}
	out, err := s.cmd.StdoutPipe()
	if err != nil {
		return err
	}
	s.cmd.Stderr = os.Stderr
	if err := s.cmd.Start(); err != nil {
		return err
	}
	s.in = in
	s.out = bufio.NewReaderSize(out, 1<<16)
	s.defined = []map[*Term]string{{}}
	s.declared = []map[string]bool{{}}
	s.send(fmt.Sprintf("(set-option :timeout %d)", s.timeoutMs))
	if lf := os.Getenv("GOSYM_SMTLOG"); lf != "" && s.log == nil {
		s.log, _ = os.OpenFile(fmt.Sprintf("%s.%d", lf, os.Getpid()), os.O_CREATE|os.O_APPEND|os.O_WRONLY, 0o644)
	}
	return nil
}

func (s *Solver) Close() {
	if s.in != nil {
		s.in.Close()
	}
	if s.cmd != nil && s.cmd.Process != nil {
		s.cmd.Process.Kill()
		s.cmd.Wait()
	}
}

func (s *Solver) restart() {
	s.Close()
	if err := s.start(); err != nil {
		panic(err)
	}
}

func (s *Solver) send(cmd string) {
	if s.log != nil {
		fmt.Fprintln(s.log, cmd)
	}
	io.WriteString(s.in, cmd)
	io.WriteString(s.in, "\n")
}

func (s *Solver) Push() {
	s.send("(push 1)")
	s.defined = append(s.defined, map[*Term]string{})
	s.declared = append(s.declared, map[string]bool{})
}
func (s *Solver) Pop() {
	s.send("(pop 1)")
	s.defined = s.defined[:len(s.defined)-1]
	s.declared = s.declared[:len(s.declared)-1]
}
func (s *Solver) Depth() int { return len(s.defined) - 1 }

func (s *Solver) lookupDef(t *Term) (string, bool) {
	for i := len(s.defined) - 1; i >= 0; i-- {
		if n, ok := s.defined[i][t]; ok {
			return n, true
		}
	}
	return "", false
}
func (s *Solver) isDeclared(n string) bool {
	for i := len(s.declared) - 1; i >= 0; i-- {
		if s.declared[i][n] {
			return true
		}
	}
	return false
}

// ref returns SMT text for t, emitting declarations and shared definitions.
func (s *Solver) ref(t *Term) string {
	switch t.op {
	case "const":
		return t.String()
	case "var":
		if !s.isDeclared(t.sv) {
			s.send(fmt.Sprintf("(declare-const %s %s)", t.sv, t.sort))
			s.declared[len(s.declared)-1][t.sv] = true
		}
		return t.sv
	}
	if n, ok := s.lookupDef(t); ok {
		return n
	}
	var txt string
	if t.op == "itoa" {
		a := s.ref(t.args[0])
		txt = "(ite (< " + a + " 0) (str.++ \"-\" (str.from_int (- " + a + "))) (str.from_int " + a + "))"
	} else {
		var sb strings.Builder
		sb.WriteByte('(')
		sb.WriteString(t.op)
		for _, a := range t.args {
			sb.WriteByte(' ')
			sb.WriteString(s.ref(a))
		}
		sb.WriteByte(')')
		txt = sb.String()
	}
	if t.size > 6 {
		s.nameCtr++
		n := fmt.Sprintf("t!%d", s.nameCtr)
		s.send(fmt.Sprintf("(define-fun %s () %s %s)", n, t.sort, txt))
		s.defined[len(s.defined)-1][t] = n
		return n
	}
	return txt
}

func (s *Solver) Assert(t *Term) {
	s.send("(assert " + s.ref(t) + ")")
}

type SatResult int

const (
	Unsat SatResult = iota
	Sat
	Unknown
)

func (r SatResult) String() string { return [...]string{"unsat", "sat", "unknown"}[r] }

func (s *Solver) readLine() (string, error) {
	l, err := s.out.ReadString('\n')
	return strings.TrimSpace(l), err
}

func (s *Solver) Check() SatResult {
	s.queries++
	if s.tag != "" {
		if s.byTag == nil {
			s.byTag = map[string]int{}
		}
		s.byTag[s.tag]++
	}
	t0 := time.Now()
	s.send("(check-sat)")
	defer func() { s.solveNs += time.Since(t0).Nanoseconds() }()
	for {
		l, err := s.readLine()
		if err != nil {
			s.errors++
			return Unknown
		}
		switch {
		case l == "sat":
			return Sat
		case l == "unsat":
			return Unsat
		case l == "unknown" || l == "timeout":
			s.unknowns++
			return Unknown
		case strings.HasPrefix(l, "(error"):
			fmt.Fprintln(os.Stderr, "SOLVER ERROR:", l)
			s.errors++
			// keep reading until a verdict arrives; the verdict is discarded
			for {
				l2, err := s.readLine()
				if err != nil || l2 == "sat" || l2 == "unsat" || l2 == "unknown" {
					break
				}
			}
			return Unknown
		case l == "":
			continue
		}
	}
}

// CheckWith: push, assert extra, check, pop.
func (s *Solver) CheckWith(extra ...*Term) SatResult {
	s.Push()
	for _, e := range extra {
		s.Assert(e)
	}
	r := s.Check()
	s.Pop()
	return r
}

// Model values for the given variables; must follow a Sat Check() in the same scope.
func (s *Solver) GetValues(vars []*Term) map[string]*Term {
	res := map[string]*Term{}
	if len(vars) == 0 {
		return res
	}
	var sb strings.Builder
	sb.WriteString("(get-value (")
	for _, v := range vars {
		sb.WriteString(s.ref(v))
		sb.WriteByte(' ')
	}
	sb.WriteString("))")
	s.send(sb.String())
	// read balanced s-expression
	var buf strings.Builder
	depth := 0
	started := false
	inStr := false
	for {
		c, err := s.out.ReadByte()
		if err != nil {
			s.errors++
			return res
		}
		buf.WriteByte(c)
		if inStr {
			if c == '"' {
				inStr = false
			}
			continue
		}
		switch c {
		case '"':
			inStr = true
		case '(':
			depth++
			started = true
		case ')':
			depth--
		}
		if started && depth == 0 {
			break
		}
	}
	txt := buf.String()
	if strings.HasPrefix(strings.TrimSpace(txt), "(error") {
		s.errors++
		fmt.Fprintln(os.Stderr, "SOLVER ERROR (get-value):", txt)
		return res
	}
	sx := parseSexp(txt)
	if sx == nil {
		return res
	}
	byName := map[string]*Term{}
	for _, v := range vars {
		byName[v.sv] = v
	}
	for _, pair := range sx.list {
		if len(pair.list) != 2 {
			continue
		}
		name := pair.list[0].atom
		v := byName[name]
		if v == nil {
			continue
		}
		res[name] = sexpToConst(pair.list[1], v.sort)
	}
	return res
}

type sexp struct {
	atom string
	str  bool
	list []*sexp
}

func parseSexp(s string) *sexp {
	pos := 0
	var parse func() *sexp
	skip := func() {
		for pos < len(s) && (s[pos] == ' ' || s[pos] == '\n' || s[pos] == '\t' || s[pos] == '\r') {
			pos++
		}
	}
	parse = func() *sexp {
		skip()
		if pos >= len(s) {
			return nil
		}
		if s[pos] == '(' {
			pos++
			n := &sexp{list: []*sexp{}}
			for {
				skip()
				if pos >= len(s) {
					return n
				}
				if s[pos] == ')' {
					pos++
					return n
				}
				c := parse()
				if c == nil {
					return n
				}
				n.list = append(n.list, c)
			}
		}
		if s[pos] == '"' {
			pos++
			var sb strings.Builder
			for pos < len(s) {
				if s[pos] == '"' {
					if pos+1 < len(s) && s[pos+1] == '"' {
						sb.WriteByte('"')
						pos += 2
						continue
					}
					pos++
					break
				}
				sb.WriteByte(s[pos])
				pos++
			}
			return &sexp{atom: sb.String(), str: true}
		}
		st := pos
		for pos < len(s) && !strings.ContainsRune(" \n\t\r()", rune(s[pos])) {
			pos++
		}
		return &sexp{atom: s[st:pos]}
	}
	return parse()
}

func unescapeSMT(s string) string {
	var sb strings.Builder
	for i := 0; i < len(s); i++ {
		if s[i] == '\\' && i+2 < len(s) && s[i+1] == 'u' && s[i+2] == '{' {
			j := strings.IndexByte(s[i:], '}')
			if j > 0 {
				var cp int
				fmt.Sscanf(s[i+3:i+j], "%x", &cp)
				if cp < 256 {
					sb.WriteByte(byte(cp))
				} else {
					sb.WriteRune(rune(cp))
				}
				i += j
				continue
			}
		}
		if s[i] == '\\' && i+3 < len(s) && s[i+1] == 'x' {
			var cp int
			fmt.Sscanf(s[i+2:i+4], "%x", &cp)
			sb.WriteByte(byte(cp))
			i += 3
			continue
		}
		sb.WriteByte(s[i])
	}
	return sb.String()
}

func sexpToConst(x *sexp, sort Sort) *Term {
	switch sort {
	case SBool:
		return mkBool(x.atom == "true")
	case SStr:
		return mkStr(unescapeSMT(x.atom))
	}
	if x.list != nil {
		// (- n)
		if len(x.list) == 2 && x.list[0].atom == "-" {
			n, _ := new(big.Int).SetString(x.list[1].atom, 10)
			if n == nil {
				return mkInt(0)
			}
			return mkBig(n.Neg(n))
		}
		return mkInt(0)
	}
	n, ok := new(big.Int).SetString(x.atom, 10)
	if !ok {
		return mkInt(0)
	}
	return mkBig(n)
}
