package main

// Check driver: property -> harnesses -> symbolic exploration -> native replay of
// counterexamples and witnesses -> classification -> evidence.

import (
	"bufio"
	"encoding/json"
	"fmt"
	"os"
	"os/exec"
	"path/filepath"
	"sort"
	"strconv"
	"strings"
	"time"
)

type HarnessSpec struct {
	Pkg      string   `json:"pkg"`  // import path relative to the module ("pkg/execution/util/cronschedule")
	Func     string   `json:"func"` // harness function
	Tiers    []string `json:"tiers,omitempty"`
	Covers   []string `json:"covers,omitempty"` // cover marks that must be reachable (vacuity guard)
	Bounds   string   `json:"bounds,omitempty"`
	Lemma    string   `json:"lemma,omitempty"`
	MaxPaths int      `json:"max_paths,omitempty"`
	MaxSecs  float64  `json:"max_secs,omitempty"`
	// budgets of the thorough tier, when they differ
	ThoroughMaxPaths int     `json:"thorough_max_paths,omitempty"`
	ThoroughMaxSecs  float64 `json:"thorough_max_secs,omitempty"`
	Loop     int      `json:"loop,omitempty"`
}

type PropertySpec struct {
	Harnesses   []HarnessSpec `json:"harnesses"`
	Assumptions []string      `json:"assumptions"`
	Outside     []string      `json:"outside"`
	HostTables  []string      `json:"host_tables,omitempty"`
	// assertion ids owned by this property (prefix match); default "<id>/". Failures of
	// other assertions in a shared harness are reported by the property that owns them.
	AssertPrefixes []string `json:"assert_prefixes,omitempty"`
}

type ChecksFile struct {
	Rewrites   []Rewrite               `json:"rewrites"`
	Properties map[string]PropertySpec `json:"properties"`
}

func loadChecks() (*ChecksFile, error) {
	b, err := os.ReadFile(filepath.Join(verifDir(), "checks.json"))
	if err != nil {
		return nil, err
	}
	cf := &ChecksFile{}
	return cf, json.Unmarshal(b, cf)
}

var workDir string

func ensureWorkDir() string {
	if workDir == "" {
		workDir = filepath.Join(verifDir(), ".work", fmt.Sprintf("run-%d", os.Getpid()))
		os.MkdirAll(workDir, 0o755)
	}
	return workDir
}

func cleanupWork() {
	if workDir != "" {
		os.RemoveAll(workDir)
	}
}

// prepareOverlay: harness files + generated rewrites. Returns the in-memory
// overlay (for go/packages) and the virtual->real file map (for go test -overlay).
func prepareOverlay() (map[string][]byte, map[string]string, error) {
	ov, files, err := buildOverlay(filepath.Join(verifDir(), "harness"))
	if err != nil {
		return nil, nil, err
	}
	cf, err := loadChecks()
	if err != nil {
		return nil, nil, err
	}
	wd := ensureWorkDir()
	for i, rw := range cf.Rewrites {
		b, err := applyRewrite(rw)
		if err != nil {
			return nil, nil, fmt.Errorf("rewrite %s: %v", rw.File, err)
		}
		real := filepath.Join(wd, fmt.Sprintf("rw%d_%s", i, filepath.Base(rw.File)))
		if err := os.WriteFile(real, b, 0o644); err != nil {
			return nil, nil, err
		}
		virt := filepath.Join(repoDir, rw.File)
		ov[virt] = b
		files[virt] = real
	}
	return ov, files, nil
}

func writeOverlayJSON(files map[string]string) (string, error) {
	path := filepath.Join(ensureWorkDir(), "overlay.json")
	return path, writeJSON(path, map[string]interface{}{"Replace": files})
}

type knownFinding struct {
	kind    string // finding | fixed
	prop    string
	id      string
	asserts map[string]bool
	text    string
}

func loadKnownFindings() []knownFinding {
	var out []knownFinding
	f, err := os.Open(filepath.Join(verifDir(), "known-findings.txt"))
	if err != nil {
		return nil
	}
	defer f.Close()
	sc := bufio.NewScanner(f)
	for sc.Scan() {
		l := strings.TrimSpace(sc.Text())
		if l == "" || strings.HasPrefix(l, "#") {
			continue
		}
		kf := knownFinding{asserts: map[string]bool{}, text: l}
		switch {
		case strings.HasPrefix(l, "finding:"):
			kf.kind = "finding"
		case strings.HasPrefix(l, "fixed:"):
			kf.kind = "fixed"
		default:
			continue
		}
		for _, tok := range strings.Fields(l) {
			switch {
			case strings.HasPrefix(tok, "property="):
				kf.prop = strings.TrimPrefix(tok, "property=")
			case strings.HasPrefix(tok, "id="):
				kf.id = strings.TrimPrefix(tok, "id=")
			case strings.HasPrefix(tok, "asserts="):
				for _, a := range strings.Split(strings.TrimPrefix(tok, "asserts="), ",") {
					kf.asserts[a] = true
				}
			}
		}
		out = append(out, kf)
	}
	return out
}

type replayFile struct {
	Harness  string            `json:"harness"`
	AssertID string            `json:"assert_id"`
	Kind     string            `json:"kind"`
	Inputs   []ReplayInput     `json:"inputs"`
	Observes map[string]string `json:"observes"`
	Findings []string          `json:"findings"`
	Detail   string            `json:"detail,omitempty"`
	Property string            `json:"property"`
	Pkg      string            `json:"pkg"`
}

type nativeResult struct {
	ran      bool
	failed   []string
	panicked string
	diverged string
	observes map[string]string
}

// runNative replays all files in dir against package pkg (module-relative).
func runNative(pkgRel string, dir string, overlayJSON string, tier string) (map[string]*nativeResult, string, error) {
	cmd := exec.Command("go", "test", "-tags", "verif", "-overlay", overlayJSON, "-vet=off", "-count=1",
		"-run", "^TestVerifReplay$", "-v", "-timeout", "20m", "./"+pkgRel)
	cmd.Dir = repoDir
	cmd.Env = append(os.Environ(), "GOFLAGS=-mod=mod", "GOPROXY=off", "GOSUMDB=off", "GOTOOLCHAIN=local",
		"VERIF_REPLAY_DIR="+dir, "VERIF_TIER="+tier)
	out, err := cmd.CombinedOutput()
	res := map[string]*nativeResult{}
	var cur *nativeResult
	for _, l := range strings.Split(string(out), "\n") {
		l = strings.TrimSpace(l)
		switch {
		case strings.HasPrefix(l, "VERIF-REPLAY-BEGIN "):
			f := fieldOf(l, "file=")
			cur = &nativeResult{ran: true, observes: map[string]string{}}
			res[f] = cur
		case strings.HasPrefix(l, "VERIF-REPLAY-END"):
			cur = nil
		case cur != nil && strings.HasPrefix(l, "VERIF-ASSERT-FAIL "):
			cur.failed = append(cur.failed, strings.TrimPrefix(l, "VERIF-ASSERT-FAIL "))
		case cur != nil && strings.HasPrefix(l, "VERIF-PANIC "):
			cur.panicked = strings.TrimPrefix(l, "VERIF-PANIC ")
		case cur != nil && strings.HasPrefix(l, "VERIF-DIVERGED "):
			cur.diverged = strings.TrimPrefix(l, "VERIF-DIVERGED ")
		case cur != nil && strings.HasPrefix(l, "VERIF-OBSERVE "):
			kv := strings.TrimPrefix(l, "VERIF-OBSERVE ")
			if i := strings.Index(kv, "="); i > 0 {
				cur.observes[kv[:i]] = kv[i+1:]
			}
		}
	}
	if err != nil && len(res) == 0 {
		return res, string(out), fmt.Errorf("go test failed: %v", err)
	}
	return res, string(out), nil
}

func fieldOf(l, key string) string {
	i := strings.Index(l, key)
	if i < 0 {
		return ""
	}
	r := l[i+len(key):]
	if j := strings.IndexByte(r, ' '); j >= 0 {
		r = r[:j]
	}
	return r
}

func hasTier(h HarnessSpec, tier string) bool {
	if len(h.Tiers) == 0 {
		return true
	}
	for _, t := range h.Tiers {
		if t == tier {
			return true
		}
	}
	return false
}

func cmdCheck(args []string) int {
	if len(args) < 1 {
		usage()
	}
	prop := args[0]
	tier := "quick"
	if len(args) > 1 {
		tier = args[1]
	}
	if t := os.Getenv("VERIF_TIER"); t != "" && len(args) < 2 {
		tier = t
	}
	seed, _ := strconv.ParseInt(os.Getenv("VERIF_SEED"), 10, 64)
	t0 := time.Now()
	defer cleanupWork()
	cf, err := loadChecks()
	if err != nil {
		fmt.Println("BROKEN: cannot load checks.json:", err)
		return 2
	}
	spec, ok := cf.Properties[prop]
	if !ok {
		fmt.Println("BROKEN: unknown property", prop)
		return 2
	}
	ov, files, err := prepareOverlay()
	if err != nil {
		fmt.Println("BROKEN: overlay:", err)
		return 2
	}
	var hs []HarnessSpec
	pkgSet := map[string]bool{}
	for _, h := range spec.Harnesses {
		if hasTier(h, tier) {
			hs = append(hs, h)
			pkgSet[h.Pkg] = true
		}
	}
	var patterns []string
	for p := range pkgSet {
		patterns = append(patterns, repoMod+"/"+p)
	}
	sort.Strings(patterns)
	eng, err := Load(ov, patterns, "verif")
	if err != nil {
		fmt.Println("BROKEN: load:", err)
		return 2
	}
	eng.thorough = tier == "thorough"
	if w, err := strconv.Atoi(os.Getenv("GOSYM_WORKERS")); err == nil && w > 0 {
		eng.workers = w
	}
	if len(spec.HostTables) > 0 {
		if err := eng.buildHostTables(spec.HostTables, files, tier); err != nil {
			fmt.Println("BROKEN: host tables:", err)
			return 2
		}
	}

	replayRoot := filepath.Join(verifDir(), "replays", prop)
	os.RemoveAll(replayRoot)
	os.MkdirAll(replayRoot, 0o755)

	var results []*HarnessResult
	type pending struct {
		path string
		rf   *replayFile
		h    HarnessSpec
	}
	perPkg := map[string][]pending{}
	var broken []string
	for _, h := range hs {
		sp := eng.pkgs[repoMod+"/"+h.Pkg]
		if sp == nil || sp.Func(h.Func) == nil {
			broken = append(broken, "harness not found: "+h.Pkg+"."+h.Func)
			continue
		}
		eng.maxPaths = 200000
		if h.MaxPaths > 0 {
			eng.maxPaths = h.MaxPaths
		}
		eng.maxSecs = 900
		if h.MaxSecs > 0 {
			eng.maxSecs = h.MaxSecs
		}
		if eng.thorough && h.ThoroughMaxPaths > 0 {
			eng.maxPaths = h.ThoroughMaxPaths
		}
		if eng.thorough && h.ThoroughMaxSecs > 0 {
			eng.maxSecs = h.ThoroughMaxSecs
		}
		eng.loopBound = 128
		if h.Loop > 0 {
			eng.loopBound = h.Loop
		}
		r := eng.Explore(sp.Func(h.Func), seed)
		results = append(results, r)
		fmt.Printf("  %s: paths=%d %v asserts=%d discharged=%d queries=%d solver=%dms wall=%.1fs failures=%d\n",
			h.Func, r.Paths, r.PathStatus, r.Asserts, r.Discharged, r.Queries, r.SolverMs, r.WallS, len(r.Failures))
		for _, inc := range r.Inconclusive {
			broken = append(broken, h.Func+": "+inc)
		}
		for _, c := range h.Covers {
			if r.Covers[c] == 0 {
				broken = append(broken, h.Func+": vacuous: cover mark '"+c+"' unreachable")
			}
		}
		if r.PathStatus["done"] == 0 && len(r.Failures) == 0 {
			broken = append(broken, h.Func+": vacuous: no path reaches the end of the harness")
		}
		// choose replay candidates: up to 2 per (assert id, findings) class, and the witnesses
		classCount := map[string]int{}
		n := 0
		for _, f := range r.Failures {
			if f.Kind == "assert" && !ownsAssert(spec, prop, f.AssertID) {
				continue
			}
			key := f.AssertID + "|" + strings.Join(f.Findings, ",")
			if classCount[key] >= 2 {
				continue
			}
			classCount[key]++
			n++
			rf := &replayFile{Harness: r.Harness, AssertID: f.AssertID, Kind: f.Kind, Inputs: f.Inputs, Observes: f.Observes, Findings: f.Findings, Detail: f.Detail, Property: prop, Pkg: h.Pkg}
			path := filepath.Join(replayRoot, h.Pkg, fmt.Sprintf("%s-cex%d.json", h.Func, n))
			writeJSON(path, rf)
			perPkg[h.Pkg] = append(perPkg[h.Pkg], pending{path, rf, h})
		}
		for i, w := range r.Witnesses {
			rf := &replayFile{Harness: r.Harness, Kind: "witness", Inputs: w.Inputs, Observes: w.Observes, Property: prop, Pkg: h.Pkg}
			path := filepath.Join(replayRoot, h.Pkg, fmt.Sprintf("%s-wit%d.json", h.Func, i+1))
			writeJSON(path, rf)
			perPkg[h.Pkg] = append(perPkg[h.Pkg], pending{path, rf, h})
		}
	}

	// native replay
	known := loadKnownFindings()
	ovJSON, _ := writeOverlayJSON(files)
	validated := 0
	violations := 0
	var violationLines, knownLines, mismatch []string
	knownSeen := map[string]bool{}
	type classRes struct{ reproduced, tried int; path string; f *replayFile }
	classes := map[string]*classRes{}
	var pkgs []string
	for p := range perPkg {
		pkgs = append(pkgs, p)
	}
	sort.Strings(pkgs)
	for _, pk := range pkgs {
		dir := filepath.Join(replayRoot, pk)
		nat, out, err := runNative(pk, dir, ovJSON, tier)
		if err != nil {
			broken = append(broken, "native replay of "+pk+": "+err.Error()+"\n"+tail(out, 40))
			continue
		}
		for _, pd := range perPkg[pk] {
			nr := nat[pd.path]
			if nr == nil {
				mismatch = append(mismatch, pd.path+": replay did not run")
				continue
			}
			if pd.rf.Kind == "witness" {
				ok := nr.diverged == "" && nr.panicked == "" && len(nr.failed) == 0
				for k, v := range pd.rf.Observes {
					if strings.HasPrefix(v, "?") {
						continue
					}
					if nr.observes[k] != v {
						ok = false
						mismatch = append(mismatch, fmt.Sprintf("%s: observe %s engine=%s native=%s", pd.path, k, v, nr.observes[k]))
					}
				}
				if ok {
					validated++
				} else if nr.diverged != "" || nr.panicked != "" || len(nr.failed) > 0 {
					mismatch = append(mismatch, fmt.Sprintf("%s: witness diverged=%q panicked=%q failed=%v", pd.path, nr.diverged, nr.panicked, nr.failed))
				}
				continue
			}
			key := pd.h.Func + "|" + pd.rf.AssertID + "|" + strings.Join(pd.rf.Findings, ",")
			cr := classes[key]
			if cr == nil {
				cr = &classRes{f: pd.rf, path: pd.path}
				classes[key] = cr
			}
			cr.tried++
			repro := false
			if pd.rf.Kind == "panic" {
				repro = nr.panicked != ""
			} else {
				for _, id := range nr.failed {
					if id == pd.rf.AssertID {
						repro = true
					}
				}
			}
			if repro {
				if cr.reproduced == 0 {
					cr.path = pd.path
					cr.f = pd.rf
				}
				cr.reproduced++
				validated++
			}
		}
	}
	var keys []string
	for k := range classes {
		keys = append(keys, k)
	}
	sort.Strings(keys)
	for _, k := range keys {
		cr := classes[k]
		if cr.reproduced == 0 {
			mismatch = append(mismatch, fmt.Sprintf("%s: counterexample for %s did not reproduce natively", cr.path, cr.f.AssertID))
			continue
		}
		// classify against known findings
		isKnown := false
		if len(cr.f.Findings) > 0 {
			isKnown = true
			for _, fid := range cr.f.Findings {
				found := false
				for _, kf := range known {
					if kf.kind == "finding" && kf.prop == prop && kf.id == fid && (len(kf.asserts) == 0 || kf.asserts[cr.f.AssertID]) {
						found = true
						if !knownSeen[fid] {
							knownSeen[fid] = true
							knownLines = append(knownLines, fmt.Sprintf("KNOWN-FINDING: property=%s %s", prop, strings.TrimSpace(strings.TrimPrefix(strings.TrimSpace(strings.TrimPrefix(kf.text, "finding:")), "property="+prop))))
						}
					}
				}
				if !found {
					isKnown = false
				}
			}
		}
		if !isKnown {
			violations++
			violationLines = append(violationLines, fmt.Sprintf("VIOLATION property=%s replay=%s", prop, cr.path))
			fmt.Printf("  violated: %s in %s (%s)\n", cr.f.AssertID, cr.f.Harness, cr.f.Detail)
		}
	}

	ev := buildEvidence(prop, tier, seed, spec, hs, results, validated, violations, time.Since(t0).Seconds(), eng, cf)
	evPath := filepath.Join(verifDir(), "evidence", prop+".json")
	if d := os.Getenv("VERIF_TRIAL_EVIDENCE"); d != "" {
		// seed / mutant trials (never set by a registered command): keep the
		// committed evidence of the unchanged tree untouched
		os.MkdirAll(d, 0o755)
		evPath = filepath.Join(d, prop+".json")
	}
	if len(broken) > 0 || len(mismatch) > 0 {
		ev["coverage"].(map[string]interface{})["inconclusive"] = append(append([]string{}, broken...), mismatch...)
	}
	writeJSON(evPath, ev)

	for _, l := range knownLines {
		fmt.Println(l)
	}
	for _, l := range violationLines {
		fmt.Println(l)
	}
	if len(mismatch) > 0 {
		for _, m := range mismatch {
			fmt.Println("ENGINE-MISMATCH:", m)
		}
	}
	if len(broken) > 0 {
		for _, b := range broken {
			fmt.Println("INCONCLUSIVE:", b)
		}
	}
	fmt.Printf("%s %s: harnesses=%d paths=%d violations=%d known=%d validated=%d wall=%.1fs\n", prop, tier, len(results), totalPaths(results), violations, len(knownLines), validated, time.Since(t0).Seconds())
	if violations > 0 {
		return 1
	}
	if len(mismatch) > 0 || len(broken) > 0 {
		return 2
	}
	return 0
}

func ownsAssert(spec PropertySpec, prop, id string) bool {
	pre := spec.AssertPrefixes
	if len(pre) == 0 {
		pre = []string{prop + "/"}
	}
	for _, p := range pre {
		if strings.HasPrefix(id, p) {
			return true
		}
	}
	return false
}

func tail(s string, n int) string {
	ls := strings.Split(s, "\n")
	if len(ls) > n {
		ls = ls[len(ls)-n:]
	}
	return strings.Join(ls, "\n")
}

func totalPaths(rs []*HarnessResult) int {
	n := 0
	for _, r := range rs {
		n += r.Paths
	}
	return n
}

func buildEvidence(prop, tier string, seed int64, spec PropertySpec, hs []HarnessSpec, results []*HarnessResult, validated, violations int, wall float64, eng *Engine, cf *ChecksFile) map[string]interface{} {
	paths, steps, queries, asserts, discharged := 0, 0, 0, 0, 0
	var solverMs int64
	funcs := map[string]int{}
	var samples []interface{}
	var perH []interface{}
	for i, r := range results {
		paths += r.Paths
		steps += r.Steps
		queries += r.Queries
		asserts += r.Asserts
		discharged += r.Discharged
		solverMs += r.SolverMs
		for f, n := range r.Funcs {
			funcs[f] += n
		}
		h := hs[i]
		perH = append(perH, map[string]interface{}{
			"harness": r.Harness, "lemma": h.Lemma, "bounds": h.Bounds, "paths": r.Paths, "path_status": r.PathStatus,
			"assertions_checked": r.Asserts, "assertions_discharged": r.Discharged, "solver_queries": r.Queries,
			"solver_ms": r.SolverMs, "ssa_instructions": r.Steps, "cover_marks": r.Covers, "max_decisions_on_a_path": r.MaxDepth,
			"violated_assert_ids": r.AssertIDs, "wall_s": r.WallS,
		})
		for j, w := range r.Witnesses {
			if j >= 1 {
				break
			}
			samples = append(samples, map[string]interface{}{"kind": "reachability witness replayed natively", "harness": r.Harness, "inputs": w.Inputs, "observes": w.Observes})
		}
		for j, f := range r.Failures {
			if j >= 1 {
				break
			}
			samples = append(samples, map[string]interface{}{"kind": "counterexample", "harness": r.Harness, "assert": f.AssertID, "inputs": f.Inputs, "findings": f.Findings})
		}
	}
	var fnames []string
	for f := range funcs {
		if strings.Contains(f, repoMod) && !strings.Contains(f, "zzverif") && !strings.Contains(f, "VerifH_") {
			fnames = append(fnames, f)
		}
	}
	sort.Strings(fnames)
	if len(samples) == 0 {
		samples = append(samples, "no completed path")
	}
	var rws []string
	for _, rw := range cf.Rewrites {
		s := rw.File
		if len(rw.HookFuncs) > 0 {
			s += " hooks=" + strings.Join(rw.HookFuncs, ",")
		}
		if rw.RedirectTime {
			s += " time.Now/Since/Until->harness clock"
		}
		rws = append(rws, s)
	}
	cov := map[string]interface{}{
		"states":                        paths,
		"transitions":                   steps,
		"traces_validated_against_impl": validated,
		"samples":                       samples,
		"obligations":                   asserts,
		"discharged":                    discharged,
		"solver_queries":                queries,
		"solver_ms":                     solverMs,
		"solver":                        solverBin(),
		"functions_encoded":             fnames,
		"functions_encoded_count":       len(fnames),
		"harnesses":                     perH,
		"outside_the_claim":             spec.Outside,
		"overlay_rewrites":              rws,
		"package_load_s":                eng.loadSecs,
		"explanation":                   "bounded symbolic execution of the real Go code (go/ssa -> SMT-LIB, z3): states = feasible paths explored to their end, transitions = SSA instructions executed, obligations = assertion instances checked (incl. implicit panic checks), discharged = those the solver refuted (unsat)",
	}
	return map[string]interface{}{
		"property_id": prop,
		"tier":        tier,
		"seed":        seed,
		"level":       "model_checking",
		"coverage":    cov,
		"assumptions": spec.Assumptions,
		"wall_s":      wall,
		"violations":  violations,
	}
}

func cmdReplay(args []string) int {
	if len(args) < 1 {
		usage()
	}
	defer cleanupWork()
	b, err := os.ReadFile(args[0])
	if err != nil {
		fmt.Println("cannot read", args[0], err)
		return 2
	}
	rf := &replayFile{}
	if err := json.Unmarshal(b, rf); err != nil {
		fmt.Println("bad replay file:", err)
		return 2
	}
	_, files, err := prepareOverlay()
	if err != nil {
		fmt.Println("overlay:", err)
		return 2
	}
	ovJSON, _ := writeOverlayJSON(files)
	dir := filepath.Join(ensureWorkDir(), "replay")
	os.MkdirAll(dir, 0o755)
	dst := filepath.Join(dir, filepath.Base(args[0]))
	os.WriteFile(dst, b, 0o644)
	nat, out, err := runNative(rf.Pkg, dir, ovJSON, os.Getenv("VERIF_TIER"))
	if err != nil {
		fmt.Println(out)
		return 2
	}
	nr := nat[dst]
	if nr == nil {
		fmt.Println(out)
		fmt.Println("replay did not run")
		return 2
	}
	fmt.Printf("harness=%s assert=%s native: failed=%v panicked=%q diverged=%q observes=%v\n", rf.Harness, rf.AssertID, nr.failed, nr.panicked, nr.diverged, nr.observes)
	if len(nr.failed) > 0 || nr.panicked != "" {
		fmt.Printf("VIOLATION property=%s replay=%s\n", rf.Property, args[0])
		return 1
	}
	return 0
}

// buildHostTables regenerates host-function tables by executing the real code natively.
func (e *Engine) buildHostTables(names []string, files map[string]string, tier string) error {
	ovJSON, err := writeOverlayJSON(files)
	if err != nil {
		return err
	}
	for _, n := range names {
		pkgRel := ""
		switch n {
		case "HashIndex":
			pkgRel = "pkg/execution/util/parallel"
		default:
			return fmt.Errorf("unknown host table %s", n)
		}
		cmd := exec.Command("go", "test", "-tags", "verif", "-overlay", ovJSON, "-vet=off", "-count=1",
			"-run", "^TestVerifHostTable$", "-v", "./"+pkgRel)
		cmd.Dir = repoDir
		cmd.Env = append(os.Environ(), "GOFLAGS=-mod=mod", "GOPROXY=off", "GOSUMDB=off", "GOTOOLCHAIN=local",
			"VERIF_HOSTTABLE=1", "VERIF_TIER="+tier)
		out, err := cmd.CombinedOutput()
		if err != nil {
			return fmt.Errorf("host table %s: %v\n%s", n, err, tail(string(out), 30))
		}
		cnt := 0
		for _, l := range strings.Split(string(out), "\n") {
			if !strings.HasPrefix(l, "VERIF-HOSTTABLE ") {
				continue
			}
			f := strings.Split(strings.TrimPrefix(l, "VERIF-HOSTTABLE "), "\t")
			if len(f) == 3 {
				e.hostTable[f[0]+"\x00"+f[1]] = f[2]
				cnt++
			}
		}
		if cnt == 0 {
			return fmt.Errorf("host table %s is empty", n)
		}
	}
	return nil
}
