package main

import (
	"path/filepath"
)

func prepareOverlay() (map[string][]byte, map[string]string, error) {
	ov, files, err := buildOverlay(filepath.Join(verifDir(), "harness"))
	if err != nil {
		return nil, nil, err
	}
	return ov, files, nil
}

func cmdCheck(args []string) int  { return 2 }
func cmdReplay(args []string) int { return 2 }
