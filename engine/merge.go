package main

// Diamond merging: at a branch on a symbolic condition whose two arms are pure
// (no stores to pre-existing cells, no further forks, no panics) and re-join at
// the branch's immediate post-dominator, both arms are executed speculatively
// and the join's phi values become ite terms instead of two paths. Anything
// that is not provably pure aborts the speculation and falls back to forking.

import (
	"go/types"
	"sync"
	"sync/atomic"

	"golang.org/x/tools/go/ssa"
)

type specAbort struct{ why string }

type specState struct {
	startID int64
	guard   *Term
	blocks  int
}

var cellIDCtr int64

func nextCellID() int64 { return atomic.AddInt64(&cellIDCtr, 1) }

func (p *Path) specCheckStore(c *Cell) {
	if p.spec != nil && c.id <= p.spec.startID {
		panic(specAbort{"store to pre-existing cell"})
	}
}

func (p *Path) specForbid(what string) {
	if p.spec != nil {
		panic(specAbort{what})
	}
}

var pureIntrinsicPrefixes = []string{
	"(time.Time).", "time.Unix", "(time.Duration).", "strings.", "strconv.", "fmt.Sprintf", "fmt.Sprint", "unicode/utf8.",
	vzPkg + ".And", vzPkg + ".Or", vzPkg + ".Not", vzPkg + ".Implies", vzPkg + ".Ite", vzPkg + ".Iff",
}

func isPureIntrinsic(name string) bool {
	for _, pre := range pureIntrinsicPrefixes {
		if len(name) >= len(pre) && name[:len(pre)] == pre {
			return true
		}
	}
	return false
}

// ---- post-dominators ----

var ipdomCache sync.Map // *ssa.Function -> map[*ssa.BasicBlock]*ssa.BasicBlock

func ipdomOf(fn *ssa.Function) map[*ssa.BasicBlock]*ssa.BasicBlock {
	if v, ok := ipdomCache.Load(fn); ok {
		return v.(map[*ssa.BasicBlock]*ssa.BasicBlock)
	}
	n := len(fn.Blocks)
	// node n = virtual exit
	full := make([]bool, n+1)
	for i := range full {
		full[i] = true
	}
	pd := make([][]bool, n+1)
	for i := 0; i <= n; i++ {
		pd[i] = append([]bool{}, full...)
	}
	exitSet := make([]bool, n+1)
	exitSet[n] = true
	pd[n] = exitSet
	succs := func(i int) []int {
		b := fn.Blocks[i]
		if len(b.Succs) == 0 {
			return []int{n}
		}
		out := make([]int, len(b.Succs))
		for k, s := range b.Succs {
			out[k] = s.Index
		}
		return out
	}
	changed := true
	for changed {
		changed = false
		for i := n - 1; i >= 0; i-- {
			nw := append([]bool{}, full...)
			for _, s := range succs(i) {
				for k := range nw {
					nw[k] = nw[k] && pd[s][k]
				}
			}
			nw[i] = true
			for k := range nw {
				if nw[k] != pd[i][k] {
					changed = true
					pd[i] = nw
					break
				}
			}
		}
	}
	res := map[*ssa.BasicBlock]*ssa.BasicBlock{}
	for i := 0; i < n; i++ {
		// immediate post-dominator: the strict post-dominator that is post-dominated by all other strict post-dominators
		var cands []int
		for k := 0; k <= n; k++ {
			if k != i && pd[i][k] {
				cands = append(cands, k)
			}
		}
		for _, c := range cands {
			ok := true
			for _, d := range cands {
				if d != c && !pd[c][d] {
					ok = false
					break
				}
			}
			if ok {
				if c < n {
					res[fn.Blocks[i]] = fn.Blocks[c]
				}
				break
			}
		}
	}
	ipdomCache.Store(fn, res)
	return res
}

// tryMerge attempts to merge the arms of the symbolic branch ending block b.
// On success it returns the join block with its phi values already bound in fr.
func (p *Path) tryMerge(fr *Frame, b *ssa.BasicBlock, c *Term) (join *ssa.BasicBlock, ok bool) {
	if p.eng.noMerge {
		return nil, false
	}
	J := ipdomOf(fr.fn)[b]
	if J == nil {
		return nil, false
	}
	outer := p.spec
	savedWrap := len(p.wrapObl)
	if outer == nil {
		p.spec = &specState{startID: nextCellID(), guard: tTrue}
	}
	defer func() {
		if r := recover(); r != nil {
			p.spec = outer
			switch r.(type) {
			case specAbort, *goPanic:
				p.wrapObl = p.wrapObl[:savedWrap]
				if outer != nil {
					panic(specAbort{"nested abort"})
				}
				join, ok = nil, false
				return
			}
			panic(r)
		}
	}()
	phis := p.specBranch(fr, b, c, J)
	p.spec = outer
	for phi, v := range phis {
		fr.set(phi, v)
	}
	p.merges++
	return J, true
}

func (p *Path) specBranch(fr *Frame, b *ssa.BasicBlock, c *Term, J *ssa.BasicBlock) map[*ssa.Phi]Value {
	g := p.spec.guard
	frT := &Frame{fn: fr.fn, env: append([]Value(nil), fr.env...), idx: fr.idx, visits: fr.visits}
	p.spec.guard = mkAnd(g, c)
	vT := p.specRun(frT, b.Succs[0], b, J)
	frF := &Frame{fn: fr.fn, env: append([]Value(nil), fr.env...), idx: fr.idx, visits: fr.visits}
	p.spec.guard = mkAnd(g, mkNot(c))
	vF := p.specRun(frF, b.Succs[1], b, J)
	p.spec.guard = g
	out := map[*ssa.Phi]Value{}
	for phi, a := range vT {
		out[phi] = mergeValues(c, a, vF[phi])
	}
	return out
}

func (p *Path) specRun(fr *Frame, start, prev, J *ssa.BasicBlock) map[*ssa.Phi]Value {
	b := start
	for {
		if b == J {
			out := map[*ssa.Phi]Value{}
			for _, ins := range J.Instrs {
				phi, ok := ins.(*ssa.Phi)
				if !ok {
					break
				}
				for i, pred := range J.Preds {
					if pred == prev {
						out[phi] = p.get(fr, phi.Edges[i])
						break
					}
				}
			}
			return out
		}
		p.spec.blocks++
		if p.spec.blocks > 64 {
			panic(specAbort{"region too large"})
		}
		var next *ssa.BasicBlock
		for _, ins := range b.Instrs {
			p.steps++
			switch x := ins.(type) {
			case *ssa.Phi:
				for i, pred := range b.Preds {
					if pred == prev {
						fr.set(x, p.get(fr, x.Edges[i]))
						break
					}
				}
			case *ssa.If:
				ct, ok := p.get(fr, x.Cond).(*Term)
				if !ok {
					panic(specAbort{"non-term condition"})
				}
				if v, isC := ct.constBool(); isC {
					if v {
						next = b.Succs[0]
					} else {
						next = b.Succs[1]
					}
				} else {
					return p.specBranch(fr, b, ct, J)
				}
			case *ssa.Jump:
				next = b.Succs[0]
			case *ssa.Return, *ssa.Panic, *ssa.RunDefers, *ssa.Defer, *ssa.Go:
				panic(specAbort{"control instruction in region"})
			default:
				p.step(fr, ins)
			}
		}
		if next == nil {
			panic(specAbort{"no successor"})
		}
		prev, b = b, next
	}
}

func mergeValues(c *Term, a, b Value) Value {
	switch x := a.(type) {
	case nil:
		if b == nil {
			return nil
		}
	case *Term:
		if y, ok := b.(*Term); ok && x.sort == y.sort {
			return mkIte(c, x, y)
		}
	case TimeVal:
		if y, ok := b.(TimeVal); ok {
			lx, _ := x.loc.(Ptr)
			ly, _ := y.loc.(Ptr)
			if lx.c == ly.c {
				return TimeVal{sec: mkIte(c, x.sec, y.sec), nsec: mkIte(c, x.nsec, y.nsec), loc: x.loc}
			}
		}
	case Ptr:
		if y, ok := b.(Ptr); ok && x.c == y.c {
			return x
		}
	case IfaceVal:
		if y, ok := b.(IfaceVal); ok {
			if x.t == nil && y.t == nil {
				return x
			}
			if x.t != nil && y.t != nil && types.Identical(x.t, y.t) {
				return IfaceVal{t: x.t, v: mergeValues(c, x.v, y.v)}
			}
		}
	case StructVal:
		if y, ok := b.(StructVal); ok {
			st := under(x.t).(*types.Struct)
			if x.f == nil && y.f == nil {
				return x
			}
			f := make([]Value, st.NumFields())
			for i := range f {
				f[i] = mergeValues(c, x.field(i), y.field(i))
			}
			return StructVal{t: x.t, f: f}
		}
	case TupleVal:
		if y, ok := b.(TupleVal); ok && len(x) == len(y) {
			out := make(TupleVal, len(x))
			for i := range x {
				out[i] = mergeValues(c, x[i], y[i])
			}
			return out
		}
	case SliceVal:
		if y, ok := b.(SliceVal); ok && x == y {
			return x
		}
	case MapVal:
		if y, ok := b.(MapVal); ok && x.m == y.m {
			return x
		}
	case FuncVal:
		if y, ok := b.(FuncVal); ok && x.fn == y.fn && x.clo == y.clo && x.builtin == y.builtin && x.bound == y.bound {
			return x
		}
	case FloatVal:
		if y, ok := b.(FloatVal); ok && x.f == y.f {
			return x
		}
	}
	panic(specAbort{"unmergeable values"})
}
