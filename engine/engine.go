package main

import (
	"encoding/json"
	"runtime"
	"fmt"
	"go/types"
	"os"
	"path/filepath"
	"runtime/debug"
	"sort"
	"strings"
	"sync"
	"time"

	"golang.org/x/tools/go/packages"
	"golang.org/x/tools/go/ssa"
	"golang.org/x/tools/go/ssa/ssautil"
)

// repoDir is the tree under check: /repo. VERIF_REPO redirects it to a scratch
// worktree (used only when trying seeded changes; registered commands never set it).
var repoDir = func() string {
	if d := os.Getenv("VERIF_REPO"); d != "" {
		return d
	}
	return "/repo"
}()
const repoMod = "github.com/furiko-io/furiko"

type Engine struct {
	prog         *ssa.Program
	pkgs         map[string]*ssa.Package
	loopBound    int
	stepBound    int
	maxPaths     int
	workers      int
	hostTable    map[string]string
	locationType types.Type
	thorough     bool
	noMerge      bool
	noModelGuide bool
	maxSecs      float64
	loadSecs     float64
}

var sinkPkgs = []string{
	"k8s.io/klog/v2", "k8s.io/utils/trace", "github.com/davecgh/go-spew/spew",
	"github.com/prometheus/", "k8s.io/component-base/metrics", "log",
}

var sinkFuncs = map[string]bool{
	"k8s.io/apimachinery/pkg/util/runtime.HandleError": true,
	"k8s.io/apimachinery/pkg/util/runtime.HandleCrash": true,
	"k8s.io/apimachinery/pkg/util/runtime.Must":        true,
}

func (e *Engine) isSink(pkg, name string) bool {
	for _, s := range sinkPkgs {
		if pkg == s || strings.HasPrefix(pkg, s) {
			return true
		}
	}
	return sinkFuncs[name]
}

var denyPkgs = []string{
	"reflect", "encoding/", "runtime", "os", "net", "syscall", "internal/", "regexp", "text/template",
	"github.com/mitchellh/", "github.com/imdario/mergo", "sigs.k8s.io/yaml", "gopkg.in/yaml", "github.com/google/go-cmp",
	"k8s.io/apimachinery/pkg/util/json", "github.com/nleeper/goment",
	"k8s.io/apimachinery/pkg/runtime", "k8s.io/client-go/tools/record", "k8s.io/client-go/util/workqueue",
	"k8s.io/apimachinery/pkg/util/wait", "unsafe", "bufio", "math/rand", "crypto/", "hash/",
}

var allowFuncs = map[string]bool{
	"github.com/imdario/mergo.WithOverride": true,
}

var allowExceptions = map[string]bool{
	"k8s.io/apimachinery/pkg/runtime/schema": true,
}

// lookupMethod finds the method of a dynamic type by name (exported names;
// unexported ones are resolved against the type's own package).
func (e *Engine) lookupMethod(t types.Type, name string) *ssa.Function {
	ms := e.prog.MethodSets.MethodSet(t)
	for i := 0; i < ms.Len(); i++ {
		sel := ms.At(i)
		if sel.Obj().Name() == name {
			return e.prog.MethodValue(sel)
		}
	}
	return nil
}

func (e *Engine) allowed(pkg string) bool {
	if allowExceptions[pkg] {
		return true
	}
	for _, d := range denyPkgs {
		if pkg == d || (strings.HasSuffix(d, "/") && strings.HasPrefix(pkg, d)) || strings.HasPrefix(pkg, d+"/") {
			return false
		}
	}
	return true
}

// packages whose init is not executed (globals get special or zero values)
func (e *Engine) skipInit(pkg *ssa.Package) bool {
	path := pkg.Pkg.Path()
	if path == "time" {
		return true
	}
	return !strings.HasPrefix(path, repoMod) && !strings.HasPrefix(path, "k8s.io/utils/clock") &&
		!strings.HasPrefix(path, "k8s.io/apimachinery/pkg/apis/meta/v1") &&
		!strings.HasPrefix(path, "k8s.io/apimachinery/pkg/api/errors") &&
		!strings.HasPrefix(path, "k8s.io/apimachinery/pkg/util/validation") &&
		!strings.HasPrefix(path, "k8s.io/apimachinery/pkg/api/validation") &&
		!strings.HasPrefix(path, "k8s.io/api/core/v1") &&
		!strings.HasPrefix(path, "k8s.io/apimachinery/pkg/labels") &&
		path != "errors" && path != "io" && path != "context" && path != "strconv"
}

func (e *Engine) specialInit(p *Path, pkg *ssa.Package) {
	if pkg.Pkg.Path() == "time" {
		if g, ok := pkg.Members["UTC"].(*ssa.Global); ok {
			p.globals[g].store(p.locPtr("UTC"))
		}
		if g, ok := pkg.Members["Local"].(*ssa.Global); ok {
			p.globals[g].store(p.locPtr("Local"))
		}
	}
}

func (e *Engine) lookupFunc(pkg, name string) *ssa.Function {
	if sp, ok := e.pkgs[pkg]; ok {
		return sp.Func(name)
	}
	return nil
}

// Load builds the SSA program from /repo's working tree plus the overlay.
func Load(overlay map[string][]byte, patterns []string, tags string) (*Engine, error) {
	t0 := time.Now()
	env := append(os.Environ(), "GOFLAGS=-mod=mod", "GOPROXY=off", "GOSUMDB=off", "GOTOOLCHAIN=local")
	cfg := &packages.Config{
		Mode:       packages.LoadAllSyntax,
		Dir:        repoDir,
		Overlay:    overlay,
		BuildFlags: []string{"-tags=" + tags},
		Env:        env,
	}
	pkgs, err := packages.Load(cfg, patterns...)
	if err != nil {
		return nil, err
	}
	nerr := 0
	packages.Visit(pkgs, nil, func(p *packages.Package) {
		for _, e := range p.Errors {
			if nerr < 20 {
				fmt.Fprintln(os.Stderr, "LOAD ERROR:", e)
			}
			nerr++
		}
	})
	if nerr > 0 {
		return nil, fmt.Errorf("%d package load errors", nerr)
	}
	prog, _ := ssautil.AllPackages(pkgs, ssa.InstantiateGenerics)
	e := &Engine{prog: prog, pkgs: map[string]*ssa.Package{}, loopBound: 128, stepBound: 4000000, maxPaths: 200000, workers: 16, hostTable: map[string]string{}, maxSecs: 1500}
	for _, sp := range prog.AllPackages() {
		e.pkgs[sp.Pkg.Path()] = sp
	}
	for _, p := range pkgs {
		if sp := prog.Package(p.Types); sp != nil {
			sp.Build()
		}
	}
	if tp, ok := e.pkgs["time"]; ok {
		e.locationType = tp.Pkg.Scope().Lookup("Location").Type()
		timeTypeHolder = tp.Pkg.Scope().Lookup("Time").Type()
	}
	e.loadSecs = time.Since(t0).Seconds()
	e.noMerge = os.Getenv("GOSYM_NOMERGE") != ""
	e.noModelGuide = os.Getenv("GOSYM_NOGUIDE") != ""
	if os.Getenv("GOSYM_DEBUG") != "" {
		var ms runtime.MemStats
		runtime.GC()
		runtime.ReadMemStats(&ms)
		fmt.Fprintf(os.Stderr, "live heap after load: %d MB\n", ms.HeapAlloc>>20)
	}
	return e, nil
}

type HarnessResult struct {
	Harness      string         `json:"harness"`
	Paths        int            `json:"paths"`
	PathStatus   map[string]int `json:"path_status"`
	Asserts      int            `json:"asserts"`
	Discharged   int            `json:"discharged"`
	Queries      int            `json:"queries"`
	SolverMs     int64          `json:"solver_ms"`
	Steps        int            `json:"steps"`
	Failures     []*Failure     `json:"failures"`
	Witnesses    []*Failure     `json:"witnesses"`
	Covers       map[string]int `json:"covers"`
	Inconclusive []string       `json:"inconclusive"`
	Funcs        map[string]int `json:"funcs"`
	WallS        float64        `json:"wall_s"`
	SolverErrors int            `json:"solver_errors"`
	Unknowns     int            `json:"solver_unknowns"`
	AssertIDs    map[string]int `json:"assert_ids"`
	MaxDepth     int            `json:"max_decisions"`
}

func (e *Engine) newPath(s *Solver, prefix []int) *Path {
	return &Path{
		eng: e, s: s, prefix: prefix,
		globals: map[*ssa.Global]*Cell{}, inited: map[*ssa.Package]bool{},
		syncMaps: map[*Cell]*MapObj{}, hostObjs: map[*Cell]interface{}{},
		covers: map[string]bool{}, funcsSeen: map[*ssa.Function]int{}, locs: map[string]*Cell{},
	}
}

func (e *Engine) runPath(s *Solver, fn *ssa.Function, prefix []int, wantWitness bool) (p *Path) {
	p = e.newPath(s, prefix)
	base := s.Depth()
	s.Push()
	defer func() {
		for s.Depth() > base {
			s.Pop()
		}
	}()
	func() {
		defer func() {
			if r := recover(); r != nil {
				switch x := r.(type) {
				case pathEnd:
					p.status = x.reason
				case unsupportedErr:
					p.status = "unsupported"
					p.detail = x.msg
				case *goPanic:
					p.status = "panic"
					p.detail = x.desc
					for s.Depth() > base+1 {
						s.Pop()
					}
					if s.Check() != Unsat {
						p.recordFailure("panic", "panic", x.desc)
					}
				default:
					p.status = "engine-error"
					p.detail = fmt.Sprintf("%v\n%s", r, debug.Stack())
				}
				return
			}
			p.status = "done"
		}()
		p.callBody(fn, nil, nil)
	}()
	for s.Depth() > base+1 {
		s.Pop()
	}
	// discharge the assertions still pending at the end of the path
	if p.status != "unsupported" && p.status != "engine-error" && p.status != "infeasible" {
		func() {
			defer func() {
				if r := recover(); r != nil {
					if pe, ok := r.(pathEnd); ok {
						if p.status == "done" {
							p.status = pe.reason
						}
						return
					}
					panic(r)
				}
			}()
			p.flushAsserts()
		}()
	}
	for s.Depth() > base+1 {
		s.Pop()
	}
	if p.status == "done" || p.status == "assert-failed" || p.status == "panic" {
		// no-wrap obligations: the LIA value must be the machine value
		var obs []*Term
		for _, o := range p.wrapObl {
			obs = append(obs, o.cond)
		}
		if all := mkAnd(obs...); all != tTrue {
			s.Push()
			s.Assert(mkNot(all))
			s.tag = "wrap"
			if r := s.Check(); r != Unsat {
				desc := "wrap-possible"
				if r == Sat {
					vm := map[string]*Term{}
					seen := map[*Term]bool{}
					for _, o := range obs {
						collectVars(o, seen, vm)
					}
					var vars []*Term
					for _, v := range vm {
						vars = append(vars, v)
					}
					model := s.GetValues(vars)
					memo := map[*Term]*Term{}
					for _, o := range p.wrapObl {
						if v, ok := evalTerm(o.cond, model, memo).constBool(); ok && !v {
							desc = "wrap-possible: " + o.desc
							break
						}
					}
				}
				p.status = "wrap-possible"
				p.detail = desc
			}
			s.Pop()
		}
	}
	if wantWitness && p.status == "done" && p.failedAsserts == 0 {
		s.tag = "witness"
		if s.Check() == Sat {
			vars := p.allVars()
			model := s.GetValues(vars)
			w := p.failureFromModel("", "witness", "", model)
			p.failures = append(p.failures, w)
		}
	}
	return p
}

// Explore runs one harness to exhaustion of its decision tree (within bounds).
func (e *Engine) Explore(fn *ssa.Function, seed int64) *HarnessResult {
	t0 := time.Now()
	res := &HarnessResult{Harness: fn.String(), PathStatus: map[string]int{}, Covers: map[string]int{}, Funcs: map[string]int{}, AssertIDs: map[string]int{}}
	var mu sync.Mutex
	cond := sync.NewCond(&mu)
	queue := [][]int{{}}
	active := 0
	witnesses := 0
	inconc := map[string]bool{}
	classKept := map[string]int{}
	stop := false
	var wg sync.WaitGroup
	nw := e.workers
	for w := 0; w < nw; w++ {
		wg.Add(1)
		go func(w int) {
			defer wg.Done()
			s, err := NewSolver(60000)
			if err != nil {
				mu.Lock()
				inconc["solver start: "+err.Error()] = true
				mu.Unlock()
				return
			}
			defer s.Close()
			defer func() {
				mu.Lock()
				res.Queries += s.queries
				if os.Getenv("GOSYM_DEBUG") != "" {
					fmt.Fprintln(os.Stderr, "queries by tag:", s.byTag)
				}
				res.SolverMs += s.solveNs / 1e6
				res.SolverErrors += s.errors
				res.Unknowns += s.unknowns
				if s.errors > 0 {
					inconc[fmt.Sprintf("solver errors: %d", s.errors)] = true
				}
				mu.Unlock()
			}()
			for {
				mu.Lock()
				for len(queue) == 0 && active > 0 && !stop {
					cond.Wait()
				}
				if stop || (len(queue) == 0 && active == 0) {
					mu.Unlock()
					cond.Broadcast()
					return
				}
				prefix := queue[len(queue)-1]
				queue = queue[:len(queue)-1]
				active++
				wantW := witnesses < 2
				mu.Unlock()

				p := e.runPath(s, fn, prefix, wantW)

				mu.Lock()
				active--
				res.Paths++
				st := p.status
				res.PathStatus[st]++
				res.Asserts += p.asserts
				res.Discharged += p.discharged
				res.Steps += p.steps
				if len(p.prefix) > res.MaxDepth {
					res.MaxDepth = len(p.prefix)
				}
				for c := range p.covers {
					res.Covers[c]++
				}
				for f, n := range p.funcsSeen {
					res.Funcs[f.String()] += n
				}
				for _, f := range p.failures {
					if f.Kind == "witness" {
						if witnesses < 2 {
							witnesses++
							res.Witnesses = append(res.Witnesses, f)
						}
						continue
					}
					if f.Kind == "inconclusive" {
						inconc["solver unknown at assert "+f.AssertID] = true
						continue
					}
					res.AssertIDs[f.AssertID]++
					ck := f.AssertID + "|" + strings.Join(f.Findings, ",")
					if classKept[ck] < 3 {
						classKept[ck]++
						res.Failures = append(res.Failures, f)
					}
				}
				switch {
				case st == "unsupported" || st == "engine-error" || st == "wrap-possible":
					d := p.detail
					if st == "engine-error" {
						if os.Getenv("GOSYM_DEBUG") != "" {
							fmt.Fprintln(os.Stderr, d)
						}
						d = strings.SplitN(d, "\n", 2)[0]
					}
					inconc[st+": "+d] = true
				case strings.HasPrefix(st, "unwind"):
					inconc[st] = true
				}
				queue = append(queue, p.forks...)
				if res.Paths >= e.maxPaths {
					inconc[fmt.Sprintf("path budget %d exhausted", e.maxPaths)] = true
					stop = true
				}
				if e.maxSecs > 0 && time.Since(t0).Seconds() > e.maxSecs {
					inconc[fmt.Sprintf("time budget %.0fs exhausted", e.maxSecs)] = true
					stop = true
				}
				if os.Getenv("GOSYM_PROGRESS") != "" && res.Paths%2000 == 0 {
					fmt.Fprintf(os.Stderr, "  .. %s paths=%d queue=%d t=%.0fs\n", fn.Name(), res.Paths, len(queue), time.Since(t0).Seconds())
				}
				mu.Unlock()
				cond.Broadcast()
			}
		}(w)
	}
	// collect solver stats after workers end: done via closure capture
	wg.Wait()
	for k := range inconc {
		res.Inconclusive = append(res.Inconclusive, k)
	}
	sort.Strings(res.Inconclusive)
	res.WallS = time.Since(t0).Seconds()
	return res
}

// ---- overlay ----

// buildOverlay maps every file under harnessDir/<rel> to /repo/<rel>.
func buildOverlay(harnessDir string) (map[string][]byte, map[string]string, error) {
	ov := map[string][]byte{}
	files := map[string]string{}
	err := filepath.Walk(harnessDir, func(path string, info os.FileInfo, err error) error {
		if err != nil || info.IsDir() {
			return err
		}
		if !strings.HasSuffix(path, ".go") {
			return nil
		}
		rel, _ := filepath.Rel(harnessDir, path)
		b, err := os.ReadFile(path)
		if err != nil {
			return err
		}
		ov[filepath.Join(repoDir, rel)] = b
		files[filepath.Join(repoDir, rel)] = path
		return nil
	})
	return ov, files, err
}

func writeJSON(path string, v interface{}) error {
	b, err := json.MarshalIndent(v, "", " ")
	if err != nil {
		return err
	}
	os.MkdirAll(filepath.Dir(path), 0o755)
	return os.WriteFile(path, append(b, '\n'), 0o644)
}
