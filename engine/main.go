package main

import (
	"flag"
	"runtime/debug"
	"runtime/pprof"
	"fmt"
	"os"
	"strings"
)

func usage() {
	fmt.Fprintln(os.Stderr, `usage:
  gosym run   -pkg <import path> -func <VerifH_...>[,<...>] [-out file] [-workers n] [-thorough]
  gosym check <property id> <quick|thorough>
  gosym replay <replay.json>`)
	os.Exit(2)
}

func main() {
	// the SSA program is a large, long-lived heap: collect rarely (memory is plentiful)
	if os.Getenv("GOGC") == "" {
		debug.SetGCPercent(150)
	}
	if len(os.Args) < 2 {
		usage()
	}
	switch os.Args[1] {
	case "run":
		cmdRun(os.Args[2:])
	case "check":
		os.Exit(cmdCheck(os.Args[2:]))
	case "replay":
		os.Exit(cmdReplay(os.Args[2:]))
	default:
		usage()
	}
}

func verifDir() string {
	if d := os.Getenv("VERIF_DIR"); d != "" {
		return d
	}
	return "/verif"
}

func cmdRun(args []string) {
	fs := flag.NewFlagSet("run", flag.ExitOnError)
	pkg := fs.String("pkg", "", "import path of the package holding the harness")
	funcs := fs.String("func", "", "comma-separated harness function names")
	out := fs.String("out", "", "result json")
	workers := fs.Int("workers", 16, "parallel workers")
	thorough := fs.Bool("thorough", false, "thorough tier")
	loop := fs.Int("loop", 128, "loop unwinding bound")
	maxPaths := fs.Int("maxpaths", 200000, "path budget")
	verbose := fs.Bool("v", false, "verbose")
	maxSecs := fs.Float64("maxsecs", 600, "time budget per harness")
	tables := fs.String("tables", "", "host tables to build (comma separated)")
	prof := fs.String("cpuprofile", "", "write cpu profile")
	fs.Parse(args)
	if *prof != "" {
		f, _ := os.Create(*prof)
		pprof.StartCPUProfile(f)
		defer pprof.StopCPUProfile()
	}
	ov, _, err := prepareOverlay()
	if err != nil {
		fmt.Fprintln(os.Stderr, "overlay:", err)
		os.Exit(2)
	}
	eng, err := Load(ov, []string{*pkg}, "verif")
	if err != nil {
		fmt.Fprintln(os.Stderr, "load:", err)
		os.Exit(2)
	}
	eng.workers = *workers
	eng.thorough = *thorough
	eng.loopBound = *loop
	eng.maxPaths = *maxPaths
	eng.maxSecs = *maxSecs
	if *tables != "" {
		_, files, _ := prepareOverlay()
		tier := "quick"
		if *thorough {
			tier = "thorough"
		}
		if err := eng.buildHostTables(strings.Split(*tables, ","), files, tier); err != nil {
			fmt.Fprintln(os.Stderr, "host tables:", err)
			os.Exit(2)
		}
	}
	defer cleanupWork()
	fmt.Fprintf(os.Stderr, "loaded in %.1fs\n", eng.loadSecs)
	sp := eng.pkgs[*pkg]
	if sp == nil {
		fmt.Fprintln(os.Stderr, "package not found:", *pkg)
		os.Exit(2)
	}
	var results []*HarnessResult
	for _, fname := range strings.Split(*funcs, ",") {
		fn := sp.Func(fname)
		if fn == nil {
			fmt.Fprintln(os.Stderr, "harness not found:", fname)
			os.Exit(2)
		}
		r := eng.Explore(fn, 0)
		results = append(results, r)
		fmt.Printf("%s: paths=%d status=%v asserts=%d discharged=%d queries=%d solver=%dms wall=%.1fs failures=%d inconclusive=%v covers=%v\n",
			fname, r.Paths, r.PathStatus, r.Asserts, r.Discharged, r.Queries, r.SolverMs, r.WallS, len(r.Failures), r.Inconclusive, r.Covers)
		if *verbose {
			for _, f := range r.Failures {
				fmt.Printf("  FAIL %s %s inputs=%v observes=%v findings=%v\n", f.AssertID, f.Detail, f.Inputs, f.Observes, f.Findings)
			}
		}
	}
	if *out != "" {
		writeJSON(*out, results)
	}
}
