package main

// Overlay rewrites, regenerated from /repo's current source on every run and
// used identically by the symbolic run (packages.Config.Overlay) and the native
// replay (go test -overlay):
//   - hook_funcs: a named function/method F is renamed verifOrig_F and a
//     trampoline F is added that calls VerifHook_F when the harness has set it;
//   - redirect_time: time.Now / time.Since / time.Until call sites in the file
//     are redirected to the harness clock (zzverif.Now/Since/Until).
// /repo itself is never modified.

import (
	"bytes"
	"fmt"
	"go/ast"
	"go/parser"
	"go/printer"
	"go/token"
	"os"
	"path/filepath"
	"strings"

	"golang.org/x/tools/go/ast/astutil"
)

type CallRedirect struct {
	Recv   string `json:"recv"`   // identifier the method is called on
	Method string `json:"method"` // method name
	To     string `json:"to"`     // package-level function taking the receiver as first argument
	// PkgFunc: Recv is a package name (a plain function call): the arguments are passed unchanged
	PkgFunc bool `json:"pkg_func,omitempty"`
}

type Rewrite struct {
	File          string         `json:"file"`
	HookFuncs     []string       `json:"hook_funcs,omitempty"`
	RedirectTime  bool           `json:"redirect_time,omitempty"`
	RedirectAtomic bool          `json:"redirect_atomic,omitempty"`
	CallRedirects []CallRedirect `json:"call_redirects,omitempty"`
}

func applyRewrite(rw Rewrite) ([]byte, error) {
	path := filepath.Join(repoDir, rw.File)
	src, err := os.ReadFile(path)
	if err != nil {
		return nil, err
	}
	fset := token.NewFileSet()
	f, err := parser.ParseFile(fset, path, src, parser.ParseComments)
	if err != nil {
		return nil, err
	}
	var extra bytes.Buffer
	for _, hf := range rw.HookFuncs {
		recv, name := "", hf
		if i := strings.Index(hf, "."); i >= 0 {
			recv, name = hf[:i], hf[i+1:]
		}
		var fd *ast.FuncDecl
		for _, d := range f.Decls {
			if x, ok := d.(*ast.FuncDecl); ok && x.Name.Name == name {
				r := ""
				if x.Recv != nil && len(x.Recv.List) == 1 {
					t := x.Recv.List[0].Type
					if s, ok := t.(*ast.StarExpr); ok {
						t = s.X
					}
					if id, ok := t.(*ast.Ident); ok {
						r = id.Name
					}
				}
				if r == recv {
					fd = x
				}
			}
		}
		if fd == nil {
			return nil, fmt.Errorf("hook target %s not found in %s", hf, rw.File)
		}
		if fd.Type.TypeParams != nil {
			return nil, fmt.Errorf("hook target %s is generic", hf)
		}
		// name all params
		n := 0
		var callArgs []string
		for _, fl := range fd.Type.Params.List {
			if len(fl.Names) == 0 {
				fl.Names = []*ast.Ident{ast.NewIdent(fmt.Sprintf("vp%d", n))}
			}
			for i, id := range fl.Names {
				if id.Name == "_" {
					fl.Names[i] = ast.NewIdent(fmt.Sprintf("vp%d", n))
				}
				a := fl.Names[i].Name
				if _, ok := fl.Type.(*ast.Ellipsis); ok {
					a += "..."
				}
				callArgs = append(callArgs, a)
				n++
			}
		}
		var sig bytes.Buffer
		printer.Fprint(&sig, fset, fd.Type)
		sigTxt := strings.TrimPrefix(sig.String(), "func")
		hookName := "VerifHook_" + name
		origName := "verifOrig_" + name
		recvTxt, recvArg, hookSig := "", "", sigTxt
		if fd.Recv != nil {
			var rb bytes.Buffer
			if len(fd.Recv.List[0].Names) == 0 || fd.Recv.List[0].Names[0].Name == "_" {
				fd.Recv.List[0].Names = []*ast.Ident{ast.NewIdent("vrecv")}
			}
			printer.Fprint(&rb, fset, fd.Recv.List[0].Type)
			rn := fd.Recv.List[0].Names[0].Name
			recvTxt = "(" + rn + " " + rb.String() + ") "
			recvArg = rn
			hookName = "VerifHook_" + recv + "_" + name
			// hook takes the receiver as first parameter
			hookSig = "(" + rn + " " + rb.String()
			inner := strings.TrimPrefix(sigTxt, "(")
			if !strings.HasPrefix(inner, ")") {
				hookSig += ", "
			}
			hookSig += inner
		}
		ret := "return "
		if fd.Type.Results == nil || len(fd.Type.Results.List) == 0 {
			ret = ""
		}
		fd.Name.Name = origName
		hookArgs := strings.Join(callArgs, ", ")
		if recvArg != "" {
			if hookArgs != "" {
				hookArgs = recvArg + ", " + hookArgs
			} else {
				hookArgs = recvArg
			}
		}
		origCall := origName + "(" + strings.Join(callArgs, ", ") + ")"
		if recvArg != "" {
			origCall = recvArg + "." + origCall
		}
		if ret == "" {
			fmt.Fprintf(&extra, "\nvar %s func%s\n\nfunc %s%s%s {\n\tif %s != nil {\n\t\t%s(%s)\n\t\treturn\n\t}\n\t%s\n}\n",
				hookName, hookSig, recvTxt, name, sigTxt, hookName, hookName, hookArgs, origCall)
		} else {
			fmt.Fprintf(&extra, "\nvar %s func%s\n\nfunc %s%s%s {\n\tif %s != nil {\n\t\treturn %s(%s)\n\t}\n\treturn %s\n}\n",
				hookName, hookSig, recvTxt, name, sigTxt, hookName, hookName, hookArgs, origCall)
		}
	}
	for _, cr := range rw.CallRedirects {
		n := 0
		ast.Inspect(f, func(nd ast.Node) bool {
			call, ok := nd.(*ast.CallExpr)
			if !ok {
				return true
			}
			sel, ok := call.Fun.(*ast.SelectorExpr)
			if !ok || sel.Sel.Name != cr.Method {
				return true
			}
			id, ok := sel.X.(*ast.Ident)
			if !ok || id.Name != cr.Recv {
				return true
			}
			call.Fun = ast.NewIdent(cr.To)
			if !cr.PkgFunc {
				call.Args = append([]ast.Expr{ast.NewIdent(cr.Recv)}, call.Args...)
			}
			n++
			return true
		})
		if n == 0 {
			return nil, fmt.Errorf("call %s.%s not found in %s", cr.Recv, cr.Method, rw.File)
		}
		if cr.PkgFunc {
			// keep the package import in use when every call of it was redirected
			fmt.Fprintf(&extra, "\nvar _ = %s.%s\n", cr.Recv, cr.Method)
		}
	}
	if rw.RedirectTime {
		changed := false
		ast.Inspect(f, func(n ast.Node) bool {
			sel, ok := n.(*ast.SelectorExpr)
			if !ok {
				return true
			}
			id, ok := sel.X.(*ast.Ident)
			if !ok || id.Name != "time" || id.Obj != nil {
				return true
			}
			switch sel.Sel.Name {
			case "Now", "Since", "Until":
				id.Name = "zzverif"
				changed = true
			}
			return true
		})
		if changed {
			astutil.AddNamedImport(fset, f, "zzverif", vzPkg)
			if !astutil.UsesImport(f, "time") {
				astutil.DeleteImport(fset, f, "time")
			}
		}
	}
	if rw.RedirectAtomic {
		changed := false
		ast.Inspect(f, func(n ast.Node) bool {
			sel, ok := n.(*ast.SelectorExpr)
			if !ok {
				return true
			}
			id, ok := sel.X.(*ast.Ident)
			if !ok || id.Name != "atomic" || id.Obj != nil {
				return true
			}
			switch sel.Sel.Name {
			case "AddInt64", "LoadInt64", "StoreInt64", "CompareAndSwapInt64":
				id.Name = "zzverif"
				sel.Sel.Name = "Atomic" + sel.Sel.Name
				changed = true
			}
			return true
		})
		if changed {
			astutil.AddNamedImport(fset, f, "zzverif", vzPkg)
			if !astutil.UsesImport(f, "sync/atomic") {
				astutil.DeleteImport(fset, f, "sync/atomic")
			}
		}
	}
	var out bytes.Buffer
	// build tag: the rewritten file replaces the original under the overlay only
	if err := printer.Fprint(&out, fset, f); err != nil {
		return nil, err
	}
	out.Write(extra.Bytes())
	return out.Bytes(), nil
}
