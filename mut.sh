#!/bin/bash
# usage: mut.sh <property> <file> <sed-expr>   -- applies a mutation, runs the quick check, restores
cd /verif
f=/repo/$2
cp $f /tmp/mut.bak
sed -i "$3" $f
if cmp -s $f /tmp/mut.bak; then echo "MUTATION DID NOT APPLY: $3"; exit 3; fi
VERIF_TRIAL_EVIDENCE=/tmp/trial-evidence timeout ${MUT_TIMEOUT:-900} ./check $1 ${MUT_TIER:-quick} 2>&1 | grep -E "VIOLATION|violated|INCONCLUSIVE|MISMATCH|BROKEN|^C[0-9]+ " | cut -c1-220 | head -12
cp /tmp/mut.bak $f
git -C /repo status --short | head -3
